"""Child process of C02's 'older interpreter grammar' part: scans one project with the statement classes that older
supported interpreters do not have (match statements: 3.10, except*: 3.11) removed from the ast module BEFORE pytestarch
is imported - what `import pytestarch` and a scan see on such an interpreter. Prints the snapshot as JSON.
usage: python -m pbt.oldgrammar_child <root_path>   (pytestarch is taken from PYTHONPATH)"""
import ast
import json
import sys

for _name in ("match_case", "Match", "MatchValue", "MatchSingleton", "MatchSequence", "MatchMapping", "MatchClass", "MatchStar",
              "MatchAs", "MatchOr", "pattern", "TryStar", "TypeAlias", "TypeVar", "ParamSpec", "TypeVarTuple", "type_param"):
    if hasattr(ast, _name):
        delattr(ast, _name)


def main() -> None:
    root = sys.argv[1]
    try:
        from pytestarch import get_evaluable_architecture

        ev = get_evaluable_architecture(root, root)
        g = ev._graph._graph  # noqa: SLF001
        nodes = sorted(g.nodes)
        imps = sorted([u, v] for u, v, d in g.edges(data=True) if not d.get("inherits"))
        hier = sorted([u, v] for u, v, d in g.edges(data=True) if d.get("inherits"))
        print(json.dumps({"ok": [nodes, imps, hier]}))
    except Exception as e:  # noqa: BLE001
        print(json.dumps({"error": f"{type(e).__name__}: {e}"}))


if __name__ == "__main__":
    main()
