"""Common runner: ./check <ID> [--tier quick|thorough] [--replay FILE]

Exit codes: 0 = property held on everything explored (KNOWN-FINDING lines possible),
            1 = at least one unlisted violation (VIOLATION line printed),
            2 = harness error (never reported as a violation).
"""
from __future__ import annotations

import argparse
import hashlib
import importlib
import json
import multiprocessing as mp
import os
import sys
import time
import traceback
from collections import Counter
from pathlib import Path

VERIF = Path(__file__).resolve().parent.parent
REPO = Path(os.environ.get("VERIF_REPO", "/repo")).resolve()
CORES = int(os.environ.get("VERIF_CORES", "16"))

# --------------------------------------------------------------------------- bootstrap


def _bootstrap() -> None:
    """Put the working tree's sources first on sys.path and make sure that is what gets imported."""
    src = str(REPO / "src")
    if src not in sys.path:
        sys.path.insert(0, src)
    import pytestarch  # noqa

    got = Path(pytestarch.__file__).resolve()
    if not str(got).startswith(str(REPO / "src")):
        print(f"HARNESS-ERROR: pytestarch imported from {got}, expected below {REPO / 'src'}")
        sys.exit(2)


def canon(obj) -> str:
    return json.dumps(obj, sort_keys=True, separators=(",", ":"), default=_json_default)


def _json_default(o):
    if isinstance(o, (set, frozenset)):
        return sorted(o)
    if isinstance(o, tuple):
        return list(o)
    if isinstance(o, bytes):
        return o.decode("latin1")
    return repr(o)


def h64(obj) -> int:
    return int.from_bytes(hashlib.sha1(canon(obj).encode()).digest()[:8], "big")


def derive_seed(*parts) -> int:
    return int.from_bytes(hashlib.sha256(canon(list(parts)).encode()).digest()[:8], "big")


# --------------------------------------------------------------------------- known findings


class Known:
    def __init__(self) -> None:
        p = VERIF / "known_findings.json"
        self.entries = json.loads(p.read_text())["findings"] if p.exists() else []

    def match(self, prop: str, viol: dict):
        """Return the listed *known* entry this violation belongs to, if any. 'fixed' entries suppress nothing."""
        for e in self.entries:
            if e.get("status") != "known" or e.get("property") != prop:
                continue
            if e.get("signature") != viol.get("sig"):
                continue
            want = e.get("match") or {}
            key = viol.get("key") or {}
            if all(key.get(k) == v for k, v in want.items()):
                return e
        return None


KNOWN = None


def known() -> Known:
    global KNOWN
    if KNOWN is None:
        KNOWN = Known()
    return KNOWN


# --------------------------------------------------------------------------- statistics


class Stats:
    """Picklable accumulator returned by every shard."""

    SAMPLE_CAP = 6
    VIOL_CAP = 3

    def __init__(self, prop: str) -> None:
        self.prop = prop
        self.evaluations = 0
        self.nontrivial_count = 0  # distinct by construction (exhaustive enumerators)
        self.nontrivial_hashes: set[int] = set()  # distinct by hash (random parts)
        self.labels: Counter = Counter()
        self.samples: list = []
        self.violations: dict[str, list] = {}  # sig -> [ {sig,key,detail,spec} ... ] smallest first
        self.excluded_known: Counter = Counter()
        self.truncated = False
        self.errors: list[str] = []
        self.parts: dict[str, dict] = {}
        self.payload: dict = {}

    # -- recording -----------------------------------------------------------
    def record(self, spec, res: dict, enumerated: bool, sample: bool = True) -> list[dict]:
        """Account for one executed case. Returns the violations not covered by a known finding."""
        self.evaluations += 1
        for lab in res.get("labels", ()):
            self.labels[lab] += 1
        if res.get("nontrivial"):
            if enumerated:
                self.nontrivial_count += 1
            else:
                self.nontrivial_hashes.add(h64(res.get("distinct_key", spec)))
            if sample and len(self.samples) < self.SAMPLE_CAP:
                self.samples.append(spec)
        unlisted = []
        for v in res.get("violations", ()):
            e = known().match(self.prop, v)
            if e is not None:
                self.excluded_known[e["id"]] += 1
                continue
            unlisted.append(v)
            self.add_violation(v, spec)
        return unlisted

    def add_violation(self, v: dict, spec) -> None:
        lst = self.violations.setdefault(v["sig"], [])
        lst.append({"sig": v["sig"], "key": v.get("key"), "detail": v.get("detail"), "spec": spec})
        lst.sort(key=lambda d: len(canon(d["spec"])))
        del lst[self.VIOL_CAP:]

    def merge(self, other: "Stats") -> None:
        self.evaluations += other.evaluations
        self.nontrivial_count += other.nontrivial_count
        self.nontrivial_hashes |= other.nontrivial_hashes
        self.labels.update(other.labels)
        for s in other.samples:
            if len(self.samples) < 2 * self.SAMPLE_CAP:
                self.samples.append(s)
        for sig, lst in other.violations.items():
            cur = self.violations.setdefault(sig, [])
            cur.extend(lst)
            cur.sort(key=lambda d: len(canon(d["spec"])))
            del cur[self.VIOL_CAP:]
        self.excluded_known.update(other.excluded_known)
        self.truncated |= other.truncated
        self.errors.extend(other.errors)
        self.payload.update(other.payload)


class Found(Exception):
    """Raised inside a Hypothesis test when an unlisted violation is seen (so that it is shrunk)."""


# --------------------------------------------------------------------------- shard workers


def _worker_init() -> None:
    _bootstrap()


def _exh_worker(job):
    modname, fn_name, arg, deadline = job
    try:
        mod = importlib.import_module(modname)
        st = Stats(mod.ID)
        getattr(mod, fn_name)(arg, st, deadline)
        return st
    except Exception:
        st = Stats("?")
        st.errors.append(traceback.format_exc())
        return st


def _hyp_worker(job):
    modname, strat_name, check_name, n, seed_value, tier, deadline, shrink = job
    try:
        return _hyp_run(modname, strat_name, check_name, n, seed_value, tier, deadline, shrink)
    except Exception:
        st = Stats("?")
        st.errors.append(traceback.format_exc())
        return st


def _hyp_run(modname, strat_name, check_name, n, seed_value, tier, deadline, shrink):
    from hypothesis import HealthCheck, Phase, given, seed, settings
    from hypothesis.errors import FailedHealthCheck, Unsatisfiable

    mod = importlib.import_module(modname)
    st = Stats(mod.ID)
    strat = getattr(mod, strat_name)(tier)
    check = getattr(mod, check_name)
    holder: dict = {}
    phases = [Phase.generate, Phase.shrink] if shrink else [Phase.generate]

    @seed(seed_value)
    @settings(
        max_examples=n,
        database=None,
        deadline=None,
        derandomize=False,
        report_multiple_bugs=False,
        suppress_health_check=list(HealthCheck),
        phases=phases,
    )
    @given(strat)
    def test(spec):
        if time.time() > deadline and "fail" not in holder:
            st.truncated = True
            return
        res = check(spec)
        unlisted = st.record(spec, res, enumerated=False)
        if unlisted:
            holder["fail"] = (spec, unlisted[0])
            raise Found(unlisted[0]["sig"])

    try:
        test()
    except Found:
        spec, v = holder["fail"]
        # keep only the shrunk witness for this signature
        st.violations[v["sig"]] = [{"sig": v["sig"], "key": v.get("key"), "detail": v.get("detail"), "spec": spec}]
    except (FailedHealthCheck, Unsatisfiable):
        st.errors.append(traceback.format_exc())
    return st


# --------------------------------------------------------------------------- context


class Ctx:
    def __init__(self, prop: str, tier: str, seed_value: int) -> None:
        self.prop = prop
        self.tier = tier
        self.seed = seed_value
        self.t0 = time.time()
        self.stats = Stats(prop)
        self.rule_text = ""
        self.assumptions: list[str] = []
        self.extra: dict = {}
        self.exhaustive_all = None
        self.budget_s = float(os.environ.get("VERIF_BUDGET_S", "0")) or (300.0 if tier == "quick" else 1500.0)
        self._pool = None

    @property
    def deadline(self) -> float:
        return self.t0 + self.budget_s

    def pool(self):
        if self._pool is None:
            ctx = mp.get_context("fork")
            self._pool = ctx.Pool(CORES, initializer=_worker_init)
        return self._pool

    # -- parts -------------------------------------------------------------
    def _note_part(self, name: str, st: Stats, t0: float, **kw) -> None:
        self.stats.parts[name] = dict(
            evaluations=st.evaluations,
            distinct_nontrivial=st.nontrivial_count + len(st.nontrivial_hashes),
            wall_s=round(time.time() - t0, 2),
            truncated=st.truncated,
            **kw,
        )

    def exhaustive(self, name: str, modname: str, fn_name: str, shard_args: list, scope: str, kind: str = "exhaustive") -> Stats:
        """Run fn(arg, stats, deadline) for every shard argument over the process pool."""
        t0 = time.time()
        jobs = [(modname, fn_name, a, self.deadline) for a in shard_args]
        part = Stats(self.prop)
        for st in self.pool().imap_unordered(_exh_worker, jobs, chunksize=1):
            part.merge(st)
        self._note_part(name, part, t0, kind=kind, scope=scope, shards=len(jobs))
        if part.truncated or kind != "exhaustive":
            self.exhaustive_all = False
        elif self.exhaustive_all is None:
            self.exhaustive_all = True
        self.stats.merge(part)
        return part

    def random(self, name: str, modname: str, strat_name: str, check_name: str, examples: int, shards: int | None = None, shrink: bool = True) -> Stats:
        """Run a Hypothesis search split over processes; every shard has its own derived seed."""
        t0 = time.time()
        shards = shards or 16  # fixed, so that the sample does not depend on how many cores happen to be available
        per = max(1, examples // shards)
        jobs = [
            (modname, strat_name, check_name, per, derive_seed(self.seed, self.prop, name, i), self.tier, self.deadline, shrink)
            for i in range(shards)
        ]
        part = Stats(self.prop)
        for st in self.pool().imap_unordered(_hyp_worker, jobs, chunksize=1):
            part.merge(st)
        self._note_part(name, part, t0, kind="hypothesis", max_examples=per * shards, shards=shards)
        self.exhaustive_all = False
        self.stats.merge(part)
        return part

    def fuzz(self, name: str, strat_name: str, check_name: str, runs: int, procs: int = 8, max_len: int = 4096) -> Stats | None:
        """Coverage-guided campaign (pbt/fuzz.py: atheris/libFuzzer drives the property's own strategy and check_case through
        Hypothesis' fuzz_one_input, pytestarch instrumented). `procs` independent campaigns with derived seeds and empty
        corpora, `runs` executions each. Skipped (and said so in the evidence) when atheris cannot be imported."""
        import subprocess
        import tempfile

        t0 = time.time()
        try:
            import atheris  # noqa: F401
        except Exception as e:  # noqa: BLE001
            self.stats.parts[name] = {"kind": "coverage-guided fuzzing (atheris)", "skipped": f"atheris not importable: {e}"}
            return None
        here = str(VERIF)
        env = dict(os.environ, PYTHONHASHSEED="0", VERIF_REPO=str(REPO),
                   PYTHONPATH=os.pathsep.join([str(REPO / "src"), here, str(VERIF / ".deps")]))
        left = max(30, int(self.deadline - time.time()))
        jobs = []
        for i in range(procs):
            fd, out = tempfile.mkstemp(prefix="pbt_fuzz_", suffix=".json")
            os.close(fd)
            corpus = tempfile.mkdtemp(prefix="pbt_corpus_")
            seed_i = derive_seed(self.seed, self.prop, name, i) % (2**31 - 1) + 1  # libFuzzer: 0 means random
            cmd = [sys.executable, "-m", "pbt.fuzz", self.prop, strat_name, check_name, out, corpus,
                   f"-runs={runs}", f"-seed={seed_i}", f"-max_len={max_len}", "-len_control=0", f"-max_total_time={left}", "-print_final_stats=1", "-verbosity=0"]
            # a few starting inputs long enough for the strategy to draw a whole case from (an empty corpus makes libFuzzer
            # start with inputs of a few bytes, which Hypothesis rejects as too short); pure function of the seed
            import random as _r
            rng = _r.Random(seed_i)
            for k in range(8):
                Path(corpus, f"start{k}").write_bytes(bytes(rng.getrandbits(8) if rng.random() < 0.7 else 0 for _ in range(max_len // (1 + k % 4))))
            jobs.append((out, subprocess.Popen(cmd, env=env, cwd=here, stdout=subprocess.PIPE, stderr=subprocess.PIPE, text=True)))
        part = Stats(self.prop)
        cov = []
        for out, p in jobs:
            so, se = p.communicate()
            try:
                body = json.loads(Path(out).read_text())
            except Exception:  # noqa: BLE001
                part.errors.append(f"fuzz campaign produced no result file (rc={p.returncode}): {se[-600:]}")
                continue
            one = Stats(self.prop)
            one.evaluations = body["evaluations"]
            one.nontrivial_hashes = set(body["nontrivial_hashes"])
            one.labels.update(body["labels"])
            one.samples = body["samples"]
            one.violations = body["violations"]
            one.excluded_known.update(body["excluded_known"])
            part.merge(one)
            for line in se.splitlines():
                if "stat::number_of_executed_units" in line:
                    cov.append(int(line.split(":")[-1]))
            if p.returncode not in (0,) and not body["evaluations"]:
                part.errors.append(f"fuzz campaign failed (rc={p.returncode}): {se[-600:]}")
        self._note_part(name, part, t0, kind="coverage-guided fuzzing (atheris/libFuzzer over Hypothesis fuzz_one_input, pytestarch instrumented)",
                        campaigns=procs, runs_per_campaign=runs, executed_units=sum(cov))
        self.exhaustive_all = False
        self.stats.merge(part)
        return part

    def inline(self, name: str, st: Stats, t0: float, **kw) -> None:
        self._note_part(name, st, t0, **kw)
        self.stats.merge(st)

    def close(self) -> None:
        if self._pool is not None:
            self._pool.close()
            self._pool.join()
            self._pool = None


# --------------------------------------------------------------------------- finishing


def _write_replay(prop: str, v: dict) -> Path:
    out = Path(os.environ.get("VERIF_OUT_DIR") or (VERIF / "out")) / "replays" / prop
    out.mkdir(parents=True, exist_ok=True)
    body = {"property": prop, "sig": v["sig"], "key": v.get("key"), "detail": v.get("detail"), "spec": v["spec"]}
    name = hashlib.sha1(canon(body).encode()).hexdigest()[:16] + ".json"
    p = out / name
    p.write_text(json.dumps(body, indent=1, sort_keys=True, default=_json_default))
    return p


def finish(ctx: Ctx, mod, exhaustive_flag: bool | None = None) -> int:
    st = ctx.stats
    if st.errors:
        for e in st.errors[:3]:
            print("HARNESS-ERROR:\n" + e)
        return 2
    n_viol = 0
    for sig in sorted(st.violations):
        v = st.violations[sig][0]
        p = _write_replay(ctx.prop, v)
        n_viol += 1
        print(f"VIOLATION property={ctx.prop} replay={p}")
        print(f"  signature: {sig}")
        print(f"  detail: {str(v.get('detail'))[:600]}")
    for e in known().entries:
        if e.get("property") == ctx.prop and e.get("status") == "known":
            hits = st.excluded_known.get(e["id"], 0)
            print(f"KNOWN-FINDING: property={ctx.prop} {e['id']}: {e['description']} (cases excluded this run: {hits})")
    distinct = st.nontrivial_count + len(st.nontrivial_hashes)
    ev = {
        "property_id": ctx.prop,
        "tier": ctx.tier,
        "seed": ctx.seed,
        "level": "exploration",
        "coverage": {
            "evaluations": st.evaluations,
            "distinct_nontrivial": distinct,
            "rule": ctx.rule_text or getattr(mod, "RULE_TEXT", ""),
            "samples": st.samples[:8],
            "exhaustive": bool(ctx.exhaustive_all) if exhaustive_flag is None else exhaustive_flag,
            "parts": st.parts,
            "labels": dict(sorted(st.labels.items())),
            "excluded_known": dict(st.excluded_known),
            "budget_exhausted": st.truncated,
            **ctx.extra,
        },
        "assumptions": ctx.assumptions or getattr(mod, "ASSUMPTIONS", []),
        "wall_s": round(time.time() - ctx.t0, 2),
        "violations": n_viol,
    }
    evd = Path(os.environ.get("VERIF_EVIDENCE_DIR") or (VERIF / "evidence"))
    evd.mkdir(parents=True, exist_ok=True)
    try:
        (evd / f"{ctx.prop}.json").write_text(json.dumps(ev, indent=1, sort_keys=True, default=_json_default))
    except Exception:
        print("HARNESS-ERROR: cannot write evidence\n" + traceback.format_exc())
        return 2
    print(
        f"{ctx.prop} tier={ctx.tier} seed={ctx.seed} evaluations={st.evaluations} distinct_nontrivial={distinct} "
        f"violations={n_viol} excluded_known={sum(st.excluded_known.values())} truncated={st.truncated} wall={ev['wall_s']}s"
    )
    if distinct < 2 or st.evaluations < 1:
        print("HARNESS-ERROR: the run produced fewer than two distinct non-trivial cases")
        return 2
    return 1 if n_viol else 0


# --------------------------------------------------------------------------- main


def main(argv=None) -> int:
    ap = argparse.ArgumentParser()
    ap.add_argument("prop")
    ap.add_argument("--tier", default=os.environ.get("VERIF_TIER", "quick"), choices=["quick", "thorough"])
    ap.add_argument("--replay")
    args = ap.parse_args(argv)
    prop = args.prop.upper()

    if os.environ.get("PYTHONHASHSEED") is None:
        env = dict(os.environ, PYTHONHASHSEED="0")
        os.execve(sys.executable, [sys.executable, "-m", "pbt.runner"] + (argv if argv is not None else sys.argv[1:]), env)

    # every temporary file of this run (generated projects, diagrams, batches - also those of pool workers and child
    # interpreters, which inherit TMPDIR) lives below one private directory that is removed when the run ends
    import atexit
    import shutil
    import tempfile

    scratch = tempfile.mkdtemp(prefix=f"pbt_{prop}_")
    os.environ["TMPDIR"] = scratch
    tempfile.tempdir = scratch
    atexit.register(shutil.rmtree, scratch, True)

    try:
        seed_value = int(os.environ.get("VERIF_SEED", "1"))
    except ValueError:
        seed_value = derive_seed(os.environ.get("VERIF_SEED")) % (2**31)

    try:
        _bootstrap()
        import hypothesis  # noqa: F401

        mod = importlib.import_module(f"pbt.props.{prop.lower()}")
    except SystemExit:
        raise
    except Exception:
        print("HARNESS-ERROR:\n" + traceback.format_exc())
        return 2

    if args.replay:
        try:
            body = json.loads(Path(args.replay).read_text())
            check = getattr(mod, body.get("check", "check_case"))
            res = check(body["spec"])
        except Exception:
            print("HARNESS-ERROR:\n" + traceback.format_exc())
            return 2
        bad = [v for v in res.get("violations", ()) if known().match(prop, v) is None]
        for v in bad:
            print(f"VIOLATION property={prop} replay={args.replay}")
            print(f"  signature: {v['sig']}\n  detail: {str(v.get('detail'))[:1000]}")
        if not bad:
            print(f"{prop} replay {args.replay}: no violation")
        return 1 if bad else 0

    ctx = Ctx(prop, args.tier, seed_value)
    try:
        # committed regression corpus first (plain calls, no Hypothesis)
        corpus = sorted((VERIF / "replays" / prop).glob("*.json")) if (VERIF / "replays" / prop).is_dir() else []
        if corpus:
            t0 = time.time()
            st = Stats(prop)
            for f in corpus:
                body = json.loads(f.read_text())
                check = getattr(mod, body.get("check", "check_case"))
                st.record(body["spec"], check(body["spec"]), enumerated=False, sample=False)
            ctx.inline("regression_corpus", st, t0, kind="replay", files=len(corpus))
        mod.run(ctx)
        rc = finish(ctx, mod)
    except SystemExit:
        raise
    except Exception:
        print("HARNESS-ERROR:\n" + traceback.format_exc())
        rc = 2
    finally:
        ctx.close()
    return rc


if __name__ == "__main__":
    sys.exit(main())
