"""Case spec -> real pytestarch objects, and capture of outcomes through the public API."""
from __future__ import annotations

import os
import shutil
import tempfile
import warnings
from pathlib import Path

from pytestarch import DiagramRule, LayeredArchitecture, LayerRule, Rule, get_evaluable_architecture
from pytestarch.eval_structure.evaluable_architecture import (
    ModuleNameFilter,
    ModuleNameRegexFilter,
    ParentModuleNameFilter,
)
from pytestarch.eval_structure.evaluable_graph import EvaluableArchitectureGraph
from pytestarch.eval_structure.networkxgraph import NetworkxGraph
from pytestarch.eval_structure_generation.file_import.import_types import AbsoluteImport

# pytestarch's @deprecated decorator re-enables DeprecationWarning on every call; keep the check output clean
warnings.showwarning = lambda *a, **k: None

# --------------------------------------------------------------------------- architectures


def make_evaluable(modules, imports, level_limit=None):
    """The direct construction used by the repository's own tests."""
    return EvaluableArchitectureGraph(
        NetworkxGraph(list(modules), [AbsoluteImport(u, v) for u, v in imports], level_limit)
    )


def evaluable_for(spec: dict):
    """The architecture a case is judged on: spec['tree'] / spec['imports'] directly, or - if the spec carries a pre-image
    ('full_tree', 'full_imports', 'level_limit') - the deeper architecture flattened by level_limit, whose quotient is
    exactly spec['tree'] / spec['imports']."""
    if spec.get("full_tree"):
        return make_evaluable(spec["full_tree"], [tuple(e) for e in spec["full_imports"]], spec["level_limit"])
    return make_evaluable(spec["tree"], [tuple(e) for e in spec["imports"]])


def snapshot(ev) -> tuple:
    """(modules, import edges, hierarchy edges) of an evaluable, read from the graph's 'inherits' attribute."""
    g = ev._graph._graph
    nodes = frozenset(g.nodes)
    imp = frozenset((u, v) for u, v, d in g.edges(data=True) if not d.get("inherits"))
    hier = frozenset((u, v) for u, v, d in g.edges(data=True) if d.get("inherits"))
    return nodes, imp, hier


def full_snapshot(ev):
    g = ev._graph._graph
    return (
        tuple(sorted(g.nodes(data=True), key=lambda t: t[0])).__repr__(),
        tuple(sorted((u, v, tuple(sorted(d.items()))) for u, v, d in g.edges(data=True))),
    )


# --------------------------------------------------------------------------- rules

VERB_METHOD = {"should": "should", "should_only": "should_only", "should_not": "should_not"}


def _spec_side(builder, side: dict):
    kind, names = side["kind"], side["names"]
    if side.get("dup") is not None:
        # the same name listed twice in one call: the list still denotes the same set of modules (round 8)
        names = list(names) + [names[side["dup"] % len(names)]]
    arg = names[0] if (len(names) == 1 and side.get("as_str", True)) else list(names)
    if kind == "named":
        return builder.are_named(arg)
    if kind == "sub":
        return builder.are_sub_modules_of(arg)
    if kind == "regex":
        return builder.have_name_matching(names[0])
    if kind == "regex-batch":  # several regular expressions in one call (subjects and objects can be given in batch)
        return builder.have_name_matching(list(names))
    if kind == "partial":
        return builder.have_name_containing(arg)
    raise ValueError(kind)


def build_rule(rs: dict):
    r = Rule().modules_that()
    r = _spec_side(r, rs["subj"])
    r = getattr(r, VERB_METHOD[rs["verb"]])()
    if rs.get("anything"):
        return r.import_anything() if rs["dir"] == "import" else r.be_imported_by_anything()
    if rs["dir"] == "import":
        r = r.import_modules_except_modules_that() if rs["exc"] else r.import_modules_that()
    else:
        r = r.be_imported_by_modules_except_modules_that() if rs["exc"] else r.be_imported_by_modules_that()
    return _spec_side(r, rs["obj"])


def build_layer_arch(layer_defs: list):
    """layer_defs: [ {name, kind:'names'|'regex', modules:[..] | regex:str, as_str:bool} ]"""
    arch = LayeredArchitecture()
    for ld in layer_defs:
        a = arch.layer(ld["name"])
        if ld["kind"] == "regex":
            arch = a.have_modules_with_names_matching(ld["regex"])
        else:
            mods = ld["modules"]
            arch = a.containing_modules(mods[0] if (len(mods) == 1 and ld.get("as_str")) else list(mods))
    return arch


def build_layer_rule(layer_defs: list, rs: dict):
    arch = build_layer_arch(layer_defs)
    r = LayerRule().based_on(arch).layers_that().are_named(rs["subj"])
    r = getattr(r, VERB_METHOD[rs["verb"]])()
    if rs.get("anything"):
        return r.access_any_layer() if rs["dir"] == "access" else r.be_accessed_by_any_layer()
    if rs["dir"] == "access":
        r = r.access_layers_except_layers_that() if rs["exc"] else r.access_layers_that()
    else:
        r = r.be_accessed_by_layers_except_layers_that() if rs["exc"] else r.be_accessed_by_layers_that()
    objs = rs["obj"]
    return r.are_named(objs[0] if (len(objs) == 1 and rs.get("obj_as_str", True)) else list(objs))


def outcome(fn) -> tuple:
    """('pass', None) | ('fail', message) | ('error', 'ExcType: text')"""
    try:
        fn()
    except AssertionError as e:
        return ("fail", str(e.args[0]) if e.args else "")
    except Exception as e:  # noqa: BLE001 - any non-assertion error is a 'configuration or lookup error'
        return ("error", f"{type(e).__name__}: {e}")
    return ("pass", None)


# Re-use of rule objects: while a warm-up architecture is set, every rule object built by eval_rule / eval_layer_rule is
# first applied to it (outcome ignored) and only then to the architecture under test. The verdict and message on the
# architecture under test must not depend on that (C15), so every oracle stays exactly the same.
_WARM_EV = None


class warmup:
    """with warmup({'tree': [...], 'imports': [[u, v], ...]} or None): ..."""

    def __init__(self, warm):
        self.warm = warm

    def __enter__(self):
        global _WARM_EV
        self.prev = _WARM_EV
        w = self.warm
        _WARM_EV = make_evaluable(w["tree"], [tuple(e) for e in w["imports"]], w.get("level_limit")) if w else None
        return self

    def __exit__(self, *a):
        global _WARM_EV
        _WARM_EV = self.prev


def _apply(build, ev) -> tuple:
    def run():
        rule = build()
        if _WARM_EV is not None:
            outcome(lambda: rule.assert_applies(_WARM_EV))
        rule.assert_applies(ev)

    return outcome(run)


def eval_rule(rs: dict, ev) -> tuple:
    return _apply(lambda: build_rule(rs), ev)


def eval_layer_rule(layer_defs, rs, ev) -> tuple:
    return _apply(lambda: build_layer_rule(layer_defs, rs), ev)


def reuse_aware(check):
    """Decorator for check_case functions whose specs may carry 'warm': runs the check inside the warm-up context and, when
    it reports violations, re-runs it without the warm-up to tell 'wrong anyway' from 'wrong only for a re-used rule object'."""

    def wrapped(spec: dict) -> dict:
        warm = spec.get("warm")
        if not warm:
            return check(spec)
        with warmup(warm):
            res = check(spec)
        res["labels"] = list(res.get("labels", [])) + ["reused-rule-object"]
        if res["violations"]:
            plain = {v["sig"] for v in check({k: v for k, v in spec.items() if k != "warm"})["violations"]}
            res["violations"] = [v if v["sig"] in plain else dict(v, sig=v["sig"] + "/only-with-reused-rule-object",
                                                                  detail="rule object first applied to " + str(warm) + ": " + str(v.get("detail")))
                                 for v in res["violations"]]
        return res

    wrapped.__name__ = getattr(check, "__name__", "check_case")
    return wrapped


def to_filter(kind: str, name: str):
    if kind == "named":
        return ModuleNameFilter(name=name)
    if kind == "sub":
        return ParentModuleNameFilter(parent_module=name)
    return ModuleNameRegexFilter(name=name)


# --------------------------------------------------------------------------- on-disk projects


class Project:
    """Writes {relative path: text} below a fresh temporary directory; root directory has the given name."""

    def __init__(self, root_name: str, files: dict, dirs=()):
        self.base = Path(tempfile.mkdtemp(prefix="pbtproj_")).resolve()
        self.root = self.base / root_name
        self.root.mkdir()
        for d in dirs:
            (self.root / d).mkdir(parents=True, exist_ok=True)
        for rel, text in files.items():
            p = self.root / rel
            p.parent.mkdir(parents=True, exist_ok=True)
            if isinstance(text, bytes):
                p.write_bytes(text)
            else:
                p.write_text(text, encoding="utf-8")

    def path(self, rel: str = "") -> str:
        return str(self.root / rel) if rel else str(self.root)

    def close(self) -> None:
        shutil.rmtree(self.base, ignore_errors=True)

    def __enter__(self):
        return self

    def __exit__(self, *a):
        self.close()


def scan(root: str, module_path: str | None = None, **kw):
    return get_evaluable_architecture(root, module_path or root, **kw)


def scan_outcome(root, module_path=None, **kw) -> tuple:
    try:
        ev = scan(root, module_path, **kw)
    except Exception as e:  # noqa: BLE001
        return ("error", f"{type(e).__name__}: {e}", None)
    nodes, imp, hier = snapshot(ev)
    return ("ok", (nodes, imp, hier), ev)


def write_puml(text: str) -> str:
    fd, p = tempfile.mkstemp(prefix="pbt_", suffix=".puml")
    with os.fdopen(fd, "w") as f:
        f.write(text)
    return p
