"""Enumeration of every statement-list position offered by the running interpreter's grammar, and construction of
source text that places a statement at a chosen nesting path (C02)."""
from __future__ import annotations

import ast
import re

_FIELD = re.compile(r"\w+\((.*)\)", re.S)


def _grammar_fields(cls):
    m = _FIELD.match((cls.__doc__ or "").replace("\n", " "))
    if not m:
        return []
    out = []
    for f in m.group(1).split(","):
        t, _, n = f.strip().rpartition(" ")
        out.append((n, t))
    return out


def enumerate_slots() -> list:
    """[(ClassName, field[, 'body'])...]: every stmt* position; excepthandler*/match_case* fields are followed through
    to the handler's / case's own stmt* field."""
    slots = []
    for cls in ast.stmt.__subclasses__():
        for name, typ in _grammar_fields(cls):
            if typ == "stmt*":
                slots.append((cls.__name__, name))
            elif typ == "excepthandler*":
                for h in ast.excepthandler.__subclasses__():
                    for n2, t2 in _grammar_fields(h):
                        if t2 == "stmt*":
                            slots.append((cls.__name__, name, n2))
            elif typ == "match_case*":
                for n2, t2 in _grammar_fields(ast.match_case):
                    if t2 == "stmt*":
                        slots.append((cls.__name__, name, n2))
    return slots


SLOTS = enumerate_slots()


def slot_name(slot) -> str:
    return ".".join(slot)


def _name(n, ctx=None):
    return ast.Name(id=n, ctx=ctx or ast.Load())


def _pass():
    return [ast.Pass()]


def _args():
    return ast.arguments(posonlyargs=[], args=[], vararg=None, kwonlyargs=[], kw_defaults=[], kwarg=None, defaults=[])


def wrap(slot, stmts: list):
    """A statement of class slot[0] holding `stmts` at the given field, minimal valid fillers elsewhere.
    Returns None for a class this harness has no filler recipe for (newer grammar): reported as uncovered."""
    cls, field = slot[0], slot[1]
    body = stmts if field == "body" else _pass()
    orelse = stmts if field == "orelse" else []
    if cls in ("FunctionDef", "AsyncFunctionDef"):
        kw = dict(name="f", args=_args(), body=body, decorator_list=[], returns=None, type_comment=None)
        node = getattr(ast, cls)(**kw)
        if "type_params" in node._fields:
            node.type_params = []
        return node
    if cls == "ClassDef":
        node = ast.ClassDef(name="C", bases=[], keywords=[], body=body, decorator_list=[])
        if "type_params" in node._fields:
            node.type_params = []
        return node
    if cls in ("For", "AsyncFor"):
        return getattr(ast, cls)(target=_name("i", ast.Store()), iter=_name("xs"), body=body, orelse=orelse, type_comment=None)
    if cls == "While":
        return ast.While(test=_name("c"), body=body, orelse=orelse)
    if cls == "If":
        return ast.If(test=_name("c"), body=body, orelse=orelse)
    if cls in ("With", "AsyncWith"):
        return getattr(ast, cls)(items=[ast.withitem(context_expr=_name("m"), optional_vars=None)], body=body, type_comment=None)
    if cls in ("Try", "TryStar"):
        handler = ast.ExceptHandler(type=_name("ValueError"), name=None, body=_pass())
        if field == "body":
            return getattr(ast, cls)(body=stmts, handlers=[handler], orelse=[], finalbody=[])
        if field == "handlers":
            handler.body = stmts
            return getattr(ast, cls)(body=_pass(), handlers=[handler], orelse=[], finalbody=[])
        if field == "orelse":
            return getattr(ast, cls)(body=_pass(), handlers=[handler], orelse=stmts, finalbody=[])
        if field == "finalbody":
            if cls == "Try":
                return ast.Try(body=_pass(), handlers=[], orelse=[], finalbody=stmts)
            return ast.TryStar(body=_pass(), handlers=[handler], orelse=[], finalbody=stmts)
    if cls == "Match":
        case = ast.match_case(pattern=ast.MatchAs(pattern=None, name=None), guard=None, body=stmts)
        return ast.Match(subject=_name("v"), cases=[case])
    return None


NEEDS_ASYNC = {"AsyncFor", "AsyncWith"}


def place(path: list, stmt_src: str):
    """Top-level statement (ast node) that holds the statement `stmt_src` at the nesting path (outermost slot first).
    Async loops/with are wrapped in an 'async def' when not already inside one. Returns (node, effective_path) or None."""
    inner = ast.parse(stmt_src).body
    eff = list(path)
    # make sure async constructs have an enclosing async function
    i = 0
    while i < len(eff):
        if eff[i][0] in NEEDS_ASYNC:
            encl = [s for s in eff[:i] if s[0] in ("FunctionDef", "AsyncFunctionDef", "ClassDef")]
            if not encl or encl[-1][0] != "AsyncFunctionDef":
                eff.insert(i, ("AsyncFunctionDef", "body"))
                i += 1
        i += 1
    node_list = inner
    for slot in reversed(eff):
        w = wrap(slot, node_list)
        if w is None:
            return None
        node_list = [w]
    return node_list[0], eff


def locate(tree_node, eff_path):
    """Follow the path from a top-level statement; returns the statement list found there."""
    cur = tree_node
    stmts = None
    for slot in eff_path:
        assert type(cur).__name__ == slot[0], (type(cur).__name__, slot)
        lst = getattr(cur, slot[1])
        if len(slot) == 3:
            lst = getattr(lst[0], slot[2])
        stmts = lst
        cur = lst[0]
    return stmts


def render_file(sites: list) -> tuple:
    """sites: [(path, import_src)] -> (source text, [effective paths], uncovered [path])."""
    body, effs, uncovered = [], [], []
    for path, src in sites:
        if not path:
            body.extend(ast.parse(src).body)
            effs.append([])
            continue
        placed = place(path, src)
        if placed is None:
            uncovered.append(path)
            effs.append(None)
            continue
        body.append(placed[0])
        effs.append(placed[1])
    mod = ast.Module(body=body, type_ignores=[])
    ast.fix_missing_locations(mod)
    text = ast.unparse(mod) + "\n"
    compile(text, "<generated>", "exec")  # harness error if a template does not compile
    # confirm every import node sits where intended
    reparsed = ast.parse(text)
    idx = 0
    for (path, src), eff in zip(sites, effs):
        if eff is None:
            continue
        n_top = len(ast.parse(src).body) if not path else 1
        if path:
            stmts = locate(reparsed.body[idx], eff)
            assert isinstance(stmts[0], (ast.Import, ast.ImportFrom)), ast.dump(stmts[0])
        else:
            assert isinstance(reparsed.body[idx], (ast.Import, ast.ImportFrom))
        idx += n_top
    return text, effs, uncovered
