"""Coverage-guided arm (atheris / libFuzzer) of a property check.

    python -m pbt.fuzz <ID> <strategy fn> <check fn> <out.json> [libFuzzer options: -runs=N -seed=S -max_len=L ...]

libFuzzer mutates a byte string, Hypothesis decodes it into a case spec of the property's own strategy
(`test.hypothesis.fuzz_one_input`), the property's own check_case judges it; pytestarch is instrumented, so inputs that
reach new branches of the code under test are kept and mutated further. The oracle sits inside the target: a violation is a
case for which check_case returns one, never a mere crash. Results (counters, labels, first witnesses per signature) are
written to <out.json> while the campaign runs, because libFuzzer ends the process itself (atexit handlers do not run).
"""
from __future__ import annotations

import importlib
import json
import os
import sys
import time


def main() -> None:
    prop, strat_name, check_name, out = sys.argv[1:5]
    fuzz_argv = [sys.argv[0]] + sys.argv[5:]
    import atheris

    from pbt.runner import REPO, Stats, _bootstrap, canon

    # pytestarch has to be imported for the first time INSIDE the instrumentation context
    sys.path.insert(0, str(REPO / "src"))
    with atheris.instrument_imports(include=["pytestarch"], enable_loader_override=False):
        import pytestarch  # noqa: F401

        mod = importlib.import_module(f"pbt.props.{prop.lower()}")
    _bootstrap()  # exits with 2 if that was not the working tree's copy
    from hypothesis import HealthCheck, given, settings

    strat = getattr(mod, strat_name)("thorough")
    check = getattr(mod, check_name)
    st = Stats(prop)
    state = {"last": time.time(), "invalid": 0}

    def dump() -> None:
        body = {"evaluations": st.evaluations, "nontrivial_hashes": sorted(st.nontrivial_hashes), "labels": dict(st.labels),
                "samples": st.samples[:4], "violations": st.violations, "excluded_known": dict(st.excluded_known)}
        tmp = out + ".tmp"
        with open(tmp, "w") as f:
            f.write(canon(body))
        os.replace(tmp, out)

    @settings(database=None, deadline=None, suppress_health_check=list(HealthCheck))
    @given(strat)
    def test(spec):
        res = check(spec)
        new = st.record(spec, res, enumerated=False)
        if new or st.evaluations % 500 == 0 or time.time() - state["last"] > 5:
            state["last"] = time.time()
            dump()

    dump()
    atheris.Setup(fuzz_argv, test.hypothesis.fuzz_one_input)
    atheris.Fuzz()


if __name__ == "__main__":
    main()
