"""Reference models. Pure set logic over dotted names; imports nothing from pytestarch.

Written from the property statements and the user documentation (LANGUAGE_DEFINTION.md "Semantics",
docs/features/*.md), not from the implementation.
"""
from __future__ import annotations

from itertools import product

# --------------------------------------------------------------------------- names / trees


def parts(name: str) -> tuple:
    return tuple(name.split("."))


def is_self_or_desc(name: str, anc: str) -> bool:
    pn, pa = parts(name), parts(anc)
    return pn[: len(pa)] == pa


def is_strict_desc(name: str, anc: str) -> bool:
    return name != anc and is_self_or_desc(name, anc)


def related(a: str, b: str) -> bool:
    return is_self_or_desc(a, b) or is_self_or_desc(b, a)


def ancestors(name: str) -> list:
    p = parts(name)
    return [".".join(p[:i]) for i in range(1, len(p))]


def closure(mods) -> set:
    out = set()
    for m in mods:
        out.add(m)
        out.update(ancestors(m))
    return out


def desc_star(tree, x: str) -> frozenset:
    return frozenset(m for m in tree if is_self_or_desc(m, x))


def desc_plus(tree, x: str) -> frozenset:
    return frozenset(m for m in tree if is_strict_desc(m, x))


def den(tree, kind: str, name: str) -> frozenset:
    """Denotation of one module filter: 'named' X -> X and all descendants; 'sub' X -> strict descendants."""
    return desc_star(tree, name) if kind == "named" else desc_plus(tree, name)


def candidate_edges(tree, allow_root_target=True, root=None, grand=False) -> list:
    """All import edges representable on a direct graph: u != v and u is not an ancestor of v (restriction 1).
    grand=True also admits imports from a module to a descendant that is not its direct child (representable on a
    directly built graph, never produced by a scan)."""
    out = []
    for u in sorted(tree):
        for v in sorted(tree):
            if u == v or (is_strict_desc(v, u) and not (grand and len(v.split(".")) - len(u.split(".")) >= 2)):
                continue
            if not allow_root_target and v == root:
                continue
            out.append((u, v))
    return out


# --------------------------------------------------------------------------- module rules (C01 / C03)

VERBS = ("should", "should_only", "should_not")


def rule_flags(verb: str, exc: bool) -> dict:
    """The four requirement flags straight from the 'Semantics' table."""
    return {
        "edge_req": verb in ("should", "should_only") and not exc,
        "edge_forb": (verb == "should_not" and not exc) or (verb == "should_only" and exc),
        "other_req": verb in ("should", "should_only") and exc,
        "other_forb": (verb == "should_not" and exc) or (verb == "should_only" and not exc),
    }


def _dens(tree, side: dict) -> list:
    return [(n, den(tree, side["kind"], n)) for n in side["names"]]


def rule_analysis(tree, imports, rule: dict) -> dict:
    """Everything the documented semantics say about one rule on one import relation.

    rule = {verb, dir: 'import'|'imported', exc: bool, anything: bool, subj:{kind,names}, obj:{kind,names}}
    Returns dict(ok, forbidden_pairs, missing_edge{subject->[objects]}, missing_other[subjects])
    Pairs are (subject-side module, object-side module) as the messages print them.
    """
    tree = frozenset(tree)
    I = set(map(tuple, imports))
    subj = _dens(tree, rule["subj"])
    if rule.get("anything"):
        # alias: should not import anything == should not import except <the subject itself>
        obj = list(subj)
        flags = rule_flags("should_not", True)
    else:
        obj = _dens(tree, rule["obj"])
        flags = rule_flags(rule["verb"], rule["exc"])
    fwd = rule["dir"] == "import"
    all_obj = frozenset().union(*[d for _, d in obj]) if obj else frozenset()

    def edge_pairs(ds, do):
        if fwd:
            return {(u, v) for (u, v) in I if u in ds and v in do}
        return {(v, u) for (u, v) in I if v in ds and u in do}

    def other_pairs(ds):
        excluded = ds | all_obj
        if fwd:
            return {(u, v) for (u, v) in I if u in ds and v not in excluded}
        return {(v, u) for (u, v) in I if v in ds and u not in excluded}

    forbidden = set()
    missing_edge: dict = {}
    missing_other: list = []
    for sname, ds in subj:
        if flags["edge_req"] or flags["edge_forb"]:
            for oname, do in obj:
                ep = edge_pairs(ds, do)
                if flags["edge_req"] and not ep:
                    missing_edge.setdefault(sname, []).append(oname)
                if flags["edge_forb"]:
                    forbidden |= ep
        if flags["other_req"] or flags["other_forb"]:
            op = other_pairs(ds)
            if flags["other_req"] and not op:
                missing_other.append(sname)
            if flags["other_forb"]:
                forbidden |= op
    ok = not forbidden and not missing_edge and not missing_other
    return {
        "ok": ok,
        "forbidden": forbidden,
        "missing_edge": {k: sorted(v) for k, v in missing_edge.items()},
        "missing_other": sorted(missing_other),
        "flags": flags,
    }


def anything_readings(tree, imports, rule: dict) -> tuple:
    """For the 'anything' alias with several subjects the documentation has two readings.
    Returns (strictest_ok, weakest_ok): per-subject conjunction vs. batch-with-union-exception."""
    strict_ok = True
    for n in rule["subj"]["names"]:
        r1 = dict(rule, subj={"kind": rule["subj"]["kind"], "names": [n]})
        strict_ok &= rule_analysis(tree, imports, r1)["ok"]
    weak_ok = rule_analysis(tree, imports, rule)["ok"]
    return strict_ok, weak_ok


def names_unrelated(names) -> bool:
    names = list(names)
    return all(not related(a, b) for i, a in enumerate(names) for b in names[i + 1:])


def verdict_sensitive(tree, imports, rule, cand_edges) -> bool:
    """Non-triviality rule of C01: the oracle verdict flips by adding or deleting one candidate edge."""
    I = set(map(tuple, imports))
    base = rule_analysis(tree, I, rule)["ok"]
    for e in cand_edges:
        J = I ^ {tuple(e)}
        if rule_analysis(tree, J, rule)["ok"] != base:
            return True
    return False


# --------------------------------------------------------------------------- layer rules (C05)


def layer_den(tree, modules) -> frozenset:
    out = set()
    for m in modules:
        out |= desc_star(tree, m)
    return frozenset(out)


def layer_analysis(tree, imports, layers: dict, rule: dict) -> dict:
    """layers: name -> list of module names (already expanded from regexes by the caller, independently of the code).
    rule = {verb, dir:'access'|'accessed', exc, anything, subj: layer name, obj: [layer names]}"""
    tree = frozenset(tree)
    I = set(map(tuple, imports))
    S = layer_den(tree, layers[rule["subj"]])
    if rule.get("anything"):
        objs = [(rule["subj"], S)]
        flags = rule_flags("should_not", True)
    else:
        objs = [(o, layer_den(tree, layers[o])) for o in rule["obj"]]
        flags = rule_flags(rule["verb"], rule["exc"])
    fwd = rule["dir"] == "access"
    all_obj = frozenset().union(*[d for _, d in objs])

    def edge_pairs(do):
        do = do - S  # imports inside the subject layer never count
        if fwd:
            return {(u, v) for (u, v) in I if u in S and v in do}
        return {(v, u) for (u, v) in I if v in S and u in do}

    excluded = S | all_obj
    if fwd:
        others = {(u, v) for (u, v) in I if u in S and v not in excluded}
    else:
        others = {(v, u) for (u, v) in I if v in S and u not in excluded}

    forbidden = set()
    missing_edge = []
    missing_other = False
    for oname, do in objs:
        ep = edge_pairs(do)
        if flags["edge_req"] and not ep:
            missing_edge.append(oname)
        if flags["edge_forb"]:
            forbidden |= ep
    if flags["other_req"] and not others:
        missing_other = True
    if flags["other_forb"]:
        forbidden |= others
    return {
        "ok": not forbidden and not missing_edge and not missing_other,
        "forbidden": forbidden,
        "missing_edge": sorted(missing_edge),
        "missing_other": missing_other,
    }


def layer_of(layers: dict, tree, module: str):
    for name, mods in layers.items():
        if module in layer_den(tree, mods):
            return name
    return None


# --------------------------------------------------------------------------- diagram conformance (C07)


def diagram_conforms(tree, imports, components: list, arrows: set, should_only: bool) -> bool:
    """components: fully qualified, pairwise unrelated module names; arrows: set of (a, b)."""
    tree = frozenset(tree)
    I = set(map(tuple, imports))
    D = {c: desc_star(tree, c) for c in components}

    def imp(a, b):
        return any((u, v) in I for u in D[a] for v in D[b])

    for a, b in product(components, components):
        if a == b:
            continue
        if ((a, b) in arrows) != imp(a, b):
            return False
    if should_only:
        for a in components:
            targets = [b for b in components if (a, b) in arrows]
            if not targets:
                continue
            allowed = D[a].union(*[D[b] for b in targets])
            if any(u in D[a] and v not in allowed for (u, v) in I):
                return False
    return True


# --------------------------------------------------------------------------- globs (C08)


def glob_matches(pattern: str, s: str) -> bool:
    """Documented glob semantics: literal text matched in full; a leading * allows any prefix, a trailing * any suffix."""
    lead = pattern.startswith("*")
    trail = pattern.endswith("*")
    if pattern == "*":
        # one star is both leading and trailing: any string
        return True
    core = pattern[(1 if lead else 0): (len(pattern) - 1 if trail else len(pattern))]
    if lead and trail:
        return core in s
    if lead:
        return s.endswith(core)
    if trail:
        return s.startswith(core)
    return s == core


# --------------------------------------------------------------------------- labels (C17)


def label_expected(tree, aliases: dict) -> dict:
    out = {}
    for m in tree:
        best = None
        for a in aliases:
            if is_self_or_desc(m, a) and (best is None or len(parts(a)) > len(parts(best))):
                best = a
        if best is None:
            out[m] = m
        else:
            out[m] = aliases[best] + m[len(best):]
    return out


# --------------------------------------------------------------------------- level limit (C09)


def truncate(name: str, keep_parts: int) -> str:
    return ".".join(parts(name)[:keep_parts])


def quotient(modules, imports, keep_parts: int) -> tuple:
    mods = {truncate(m, keep_parts) for m in modules}
    imps = set()
    for u, v in imports:
        a, b = truncate(u, keep_parts), truncate(v, keep_parts)
        if a != b:
            imps.add((a, b))
    return mods, imps
