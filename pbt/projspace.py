"""On-disk project specs shared by C04, C08, C09, C10, C14, C15: random directory trees with absolute imports."""
from __future__ import annotations

from hypothesis import strategies as st

from . import models as M

NAMES = ["a", "ab", "a_b", "aa", "b", "c", "m", "util"]
NON_ASCII_NAMES = ["gr\u00f6\u00dfe", "\u00fcbersicht", "\u6570\u636e"]  # valid identifiers, stable under NFKC


def dotted(root: str, rel: str) -> str:
    rel = rel[:-3] if rel.endswith(".py") else rel
    return ".".join([root] + [p for p in rel.split("/") if p])


@st.composite
def project_trees(draw, root="proj", max_dirs=6, max_depth=4, names=NAMES, with_noise=True, min_files=2, pycache=False):
    """Returns {root, dirs:[rel], pyfiles:[rel], otherfiles:[rel]} ; no x.py next to a directory x/."""
    dirs = [""]
    if draw(st.integers(0, 9)) == 0:
        max_dirs, max_depth = max_dirs + 5, max_depth + 3  # a tenth of the projects are larger and deeper
    if draw(st.integers(0, 9)) == 0:
        # a tenth of the projects have directories / files whose names are identifiers outside ASCII (round 9)
        names = list(names) + NON_ASCII_NAMES
    for _ in range(draw(st.integers(0, max_dirs))):
        parent = draw(st.sampled_from(dirs))
        depth = parent.count("/") + (1 if parent else 0)
        if depth >= max_depth:
            continue
        d = (parent + "/" if parent else "") + draw(st.sampled_from(names))
        if d not in dirs:
            dirs.append(d)
    pyfiles, other = [], []
    for d in dirs:
        pre = d + "/" if d else ""
        if draw(st.integers(0, 2)) > 0:
            pyfiles.append(pre + "__init__.py")
        taken = {x for x in dirs if x.rsplit("/", 1)[0] == d or (not d and "/" not in x)}
        for n in draw(st.lists(st.sampled_from(names), max_size=3, unique=True)):
            if pre + n not in dirs:
                pyfiles.append(pre + n + ".py")
        if with_noise and draw(st.integers(0, 4)) == 0:
            other.append(pre + draw(st.sampled_from(["README.md", "data.txt", "a.pyc", "b.pyi", "notes"])))
        if pycache and draw(st.integers(0, 3)) == 0:
            # what the interpreter leaves behind; excluded by the default exclusions ("*__pycache__*"), so neither the
            # directory nor anything in it is a module of a scan with default options
            other.append(pre + "__pycache__/" + draw(st.sampled_from(["m.cpython-312.pyc", "stale.py"])))
    real = [f for f in pyfiles if not f.endswith("__init__.py")]
    while len(real) < min_files:
        cand = f"f{len(real)}.py"
        pyfiles.append(cand)
        real.append(cand)
    return {"root": root, "dirs": [d for d in dirs if d], "pyfiles": sorted(set(pyfiles)), "otherfiles": sorted(set(other))}


def tree_modules(tree: dict) -> set:
    root = tree["root"]
    mods = {root}
    for d in tree["dirs"]:
        mods.add(dotted(root, d))
    for f in tree["pyfiles"]:
        mods.add(dotted(root, f))
    return mods


@st.composite
def with_imports(draw, tree, max_imports=12, extra_targets=()):
    """Adds 'imports': [[importer_relfile, target_dotted]] between scanned modules (never the importer itself)."""
    mods = sorted(tree_modules(tree))
    files = tree["pyfiles"]
    imps = []
    targets = [m for m in mods if all(p.isidentifier() for p in m.split("."))] + list(extra_targets)
    for _ in range(draw(st.integers(0, max_imports))):
        f = draw(st.sampled_from(files))
        t = draw(st.sampled_from(targets))
        if t != dotted(tree["root"], f) and [f, t] not in imps:
            imps.append([f, t])
    return dict(tree, imports=imps)


def render_files(tree: dict, rename_target=None) -> dict:
    """{rel: text}; every import is written as a module-level 'import <target>' (C02 covers the other forms)."""
    files = {f: "" for f in tree["pyfiles"]}
    for f, t in tree.get("imports", []):
        name = rename_target(t) if rename_target else t
        files[f] += f"import {name}\n"
    for f in tree.get("otherfiles", []):
        files[f] = "not python\n"
    return files


def relative_stmt(root: str, f: str, t: str):
    """'from .[pkg] import name' naming the scanned module t from file f (smallest level that reaches it), or None."""
    pkg = dotted(root, f.rsplit("/", 1)[0] if "/" in f else "")
    parts = pkg.split(".")
    for level in range(1, len(parts) + 1):
        base = ".".join(parts[: len(parts) - level + 1])
        if M.is_strict_desc(t, base):
            rest = t[len(base) + 1:]
            if "." in rest:
                return "from " + "." * level + rest.rsplit(".", 1)[0] + " import " + rest.rsplit(".", 1)[1]
            return "from " + "." * level + " import " + rest
    return None


def render_files_relative(tree: dict) -> dict:
    """Like render_files, but every import that can be written as a relative from-import is."""
    files = {f: "" for f in tree["pyfiles"]}
    for f, t in tree.get("imports", []):
        stmt = relative_stmt(tree["root"], f, t) if all(p.isidentifier() for p in t.split(".")) else None
        files[f] += (stmt or f"import {t}") + "\n"
    for f in tree.get("otherfiles", []):
        files[f] = "not python\n"
    return files


def expected_imports(tree: dict) -> set:
    root = tree["root"]
    mods = tree_modules(tree)
    out = set()
    for f, t in tree.get("imports", []):
        u = dotted(root, f)
        if t in mods and t != u and not M.is_strict_desc(u, t):
            out.add((u, t))
    return out


def drop_ancestor_imports(imps) -> set:
    """Imports of the importer's own ancestor packages are outside every claim (C02's carve-out)."""
    return {(u, v) for u, v in imps if not M.is_strict_desc(u, v)}


def restrict(mods: set, imps: set, sub: str) -> tuple:
    keep = {m for m in mods if M.is_self_or_desc(m, sub)}
    return keep | set(M.ancestors(sub)), {(u, v) for u, v in imps if u in keep and v in keep}
