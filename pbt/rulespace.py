"""The shared case space of C01 / C03 (and a source of rules for C09, C11, C12, C14, C15):
module trees, import relations and Rule descriptions, exhaustive enumerators and Hypothesis strategies."""
from __future__ import annotations

import time
from itertools import combinations

from hypothesis import strategies as st

from . import models as M

SHAPES = [(v, d, e) for v in M.VERBS for d in ("import", "imported") for e in (False, True)]
KINDS = ("named", "sub")

# fixed small trees for the exhaustive tiers ---------------------------------------------------
T4 = ["r", "r.a", "r.a.x", "r.b", "r.c"]
T6 = ["r", "r.a", "r.a.x", "r.a.y", "r.b", "r.b.x", "r.c"]
T5 = ["r", "r.a", "r.a.x", "r.a.x.k", "r.b", "r.b.y"]
TX = ["r", "r.a", "r.a.x", "r.b", "x", "x.y"]  # a second top-level package (e.g. an external library that was included)
T4P = ["r", "r.a", "r.a.x", "r.ab", "r.c"]  # T4 with a sibling whose name string-extends another sibling's name
T4U = ["r", "r.a", "r.a.b", "r.a_b", "r.c"]  # a sibling's name equals a nested name with the dot replaced by another character
TREES = {"T4": T4, "T6": T6, "T5": T5, "TX": TX, "T4P": T4P, "T4U": T4U}


def shape_name(rule: dict) -> str:
    if rule.get("anything"):
        return f"should_not.{rule['dir']}.anything"
    return f"{rule['verb']}.{rule['dir']}.{'except' if rule['exc'] else 'plain'}"


def _side_sets(names, k, same_side_related):
    for S in combinations(names, k):
        if same_side_related or M.names_unrelated(S):
            yield S


def enum_subject_object_sets(tree, max_s=2, max_o=2, root=None, same_side_related=True):
    """All (S, O), 1..max each, S and O disjoint and every subject unrelated to every object. Members of the SAME side
    may be related (a package listed together with its sub package): the semantics (per-subject judgement, objects
    jointly) are still unambiguous there. sorted lists."""
    names = [m for m in sorted(tree) if m != root]
    out = []
    for ks in range(1, max_s + 1):
        for S in _side_sets(names, ks, same_side_related):
            rest = [n for n in names if n not in S and all(not M.related(n, s) for s in S)]
            for ko in range(1, max_o + 1):
                for O in _side_sets(rest, ko, same_side_related):
                    out.append((list(S), list(O)))
    return out


def enum_rules(tree, max_s=2, max_o=2, root=None):
    """Every rule instantiation with unrelated subjects/objects on this tree (12 shapes + 2 aliases, both kinds)."""
    rules = []
    for S, O in enum_subject_object_sets(tree, max_s, max_o, root):
        for ks in KINDS:
            for ko in KINDS:
                for v, d, e in SHAPES:
                    rules.append(
                        {"verb": v, "dir": d, "exc": e, "anything": False,
                         "subj": {"kind": ks, "names": S}, "obj": {"kind": ko, "names": O}}
                    )
    names = sorted(tree)
    for ks_n in range(1, max_s + 1):
        for S in combinations(names, ks_n):
            if not M.names_unrelated(S):
                continue  # the alias de-duplicates related subjects; C12's alias law covers those
            for ks in KINDS:
                for d in ("import", "imported"):
                    rules.append(
                        {"verb": "should_not", "dir": d, "exc": False, "anything": True,
                         "subj": {"kind": ks, "names": list(S)}, "obj": None}
                    )
    return rules


def enum_related_rules(tree, max_s=1, max_o=1):
    """Every rule (12 shapes, both filter kinds on either side) in which at least one subject is the same module as, an
    ancestor of or a descendant of at least one object (the root included). 'sub modules of X should not import X' is the
    typical member. The statement of C01 is unambiguous there as well: denotations are sets of modules, edge requirements
    are judged per (subject, object) pair, 'something else' lies outside the subject and outside all objects."""
    names = sorted(tree)
    rules = []
    for ks_n in range(1, max_s + 1):
        for S in combinations(names, ks_n):
            for ko_n in range(1, max_o + 1):
                for O in combinations(names, ko_n):
                    if not any(M.related(s, o) for s in S for o in O):
                        continue
                    for ks in KINDS:
                        for ko in KINDS:
                            for v, d, e in SHAPES:
                                rules.append({"verb": v, "dir": d, "exc": e, "anything": False,
                                              "subj": {"kind": ks, "names": list(S)}, "obj": {"kind": ko, "names": list(O)}})
    return rules


def enum_so_kinds(tree, max_s=2, max_o=2, root=None):
    out = []
    for S, O in enum_subject_object_sets(tree, max_s, max_o, root):
        for ks in KINDS:
            for ko in KINDS:
                out.append(({"kind": ks, "names": S}, {"kind": ko, "names": O}))
    return out


def all_graphs(cand, max_edges=None):
    """Every import relation over the candidate edges (all subsets, or all subsets of at most max_edges edges)."""
    n = len(cand)
    if max_edges is None:
        for mask in range(2 ** n):
            yield [cand[i] for i in range(n) if mask >> i & 1]
    else:
        for k in range(0, max_edges + 1):
            for combo in combinations(cand, k):
                yield list(combo)


def count_graphs(n, max_edges=None) -> int:
    from math import comb

    return 2 ** n if max_edges is None else sum(comb(n, k) for k in range(max_edges + 1))


def graphs_of(cand, shard, nshards, max_edges=None):
    """The shard-th residue class of all_graphs."""
    for i, g in enumerate(all_graphs(cand, max_edges)):
        if i % nshards == shard:
            yield g


# ----------------------------------------------------------------------------------- strategies

SIBLINGS = ["a", "ab", "a_b", "aa", "b", "c", "x"]


@st.composite
def trees(draw, root="q", max_modules=14, max_depth=4, siblings=SIBLINGS, min_modules=3):
    """Random module tree as a sorted list of dotted names (closed under parents)."""
    mods = [root]
    if draw(st.integers(0, 9)) == 0:
        # a tenth of the trees are taller and larger than the caller asked for (up to 3 more levels, half as many modules
        # again): behaviour that depends on depth or size shows up in every check that draws its trees here
        max_depth, max_modules = max_depth + 3, max_modules + max_modules // 2
    target = draw(st.integers(min_modules, max_modules))
    frontier = [root]
    while len(mods) < target:
        parent = draw(st.sampled_from(frontier))
        if len(parent.split(".")) > max_depth:
            frontier.remove(parent)
            if not frontier:
                break
            continue
        used = {m.rsplit(".", 1)[1] for m in mods if m.rsplit(".", 1)[0] == parent and "." in m}
        free = [s for s in siblings if s not in used]
        if not free:
            frontier.remove(parent)
            if not frontier:
                break
            continue
        child = parent + "." + draw(st.sampled_from(free))
        mods.append(child)
        frontier.append(child)
    return sorted(mods)


@st.composite
def shuffled(draw, seq):
    """A permutation of seq drawn through sort keys. (st.permutations of more than a handful of elements is practically never
    completed when the choices come from a fuzzer's byte string - Hypothesis' fuzz_one_input - instead of its own generator.)"""
    seq = list(seq)
    keys = draw(st.lists(st.integers(0, 10**6), min_size=len(seq), max_size=len(seq)))
    return [x for _, _, x in sorted(zip(keys, range(len(seq)), seq))]


@st.composite
def import_relation(draw, tree, focus=(), max_edges=16, grand=False):
    """Subset of candidate edges; about half of the draws are biased to touch the focus modules."""
    cand = M.candidate_edges(tree, grand=grand)
    if not cand:
        return []
    focus = set(focus)
    hot = [e for e in cand if e[0] in focus or e[1] in focus]
    n = draw(st.integers(0, min(max_edges, len(cand))))
    out = set()
    for _ in range(n):
        pool = hot if (hot and draw(st.booleans())) else cand
        out.add(draw(st.sampled_from(pool)))
    return sorted(out)


@st.composite
def unrelated_rule(draw, tree, max_s=3, max_o=3, same_side_related=True):
    """Rule whose subjects are unrelated to its objects; members of one side may be related to each other."""
    names = [m for m in tree]
    kind_s = draw(st.sampled_from(KINDS))
    kind_o = draw(st.sampled_from(KINDS))
    anything = draw(st.integers(0, 6)) == 0
    order = draw(st.permutations(names))
    if anything:
        want = draw(st.integers(1, max_s))
        chosen = []
        for n in order:
            if all(not M.related(n, c) for c in chosen):
                chosen.append(n)
                if len(chosen) == want:
                    break
        d = draw(st.sampled_from(("import", "imported")))
        return {"verb": "should_not", "dir": d, "exc": False, "anything": True,
                "subj": {"kind": kind_s, "names": sorted(chosen) or [tree[0]]}, "obj": None}
    n_s = draw(st.integers(1, max_s))
    n_o = draw(st.integers(1, max_o))
    related_ok = same_side_related and draw(st.booleans())
    S, O = [], []
    for n in order:
        if len(S) < n_s and all(not M.related(n, o) for o in O) and (related_ok or all(not M.related(n, x) for x in S)):
            S.append(n)
        elif len(O) < n_o and all(not M.related(n, x) for x in S) and (related_ok or all(not M.related(n, x) for x in O)):
            O.append(n)
    if not S or not O:
        d = draw(st.sampled_from(("import", "imported")))
        return {"verb": "should_not", "dir": d, "exc": False, "anything": True,
                "subj": {"kind": kind_s, "names": [(S or O or [tree[0]])[0]]}, "obj": None}
    v, d, e = draw(st.sampled_from(SHAPES))
    return {"verb": v, "dir": d, "exc": e, "anything": False,
            "subj": {"kind": kind_s, "names": sorted(S)}, "obj": {"kind": kind_o, "names": sorted(O)}}


@st.composite
def related_rule(draw, tree, max_s=3, max_o=3):
    """Rule with explicit objects in which some subject is the same module as, an ancestor of or a descendant of some object."""
    names = list(tree)
    s0 = draw(st.sampled_from(names))
    rel = [n for n in names if M.related(n, s0)]
    o0 = draw(st.sampled_from(rel))
    S = sorted({s0} | set(draw(st.lists(st.sampled_from(names), max_size=max_s - 1))))
    O = sorted({o0} | set(draw(st.lists(st.sampled_from(names), max_size=max_o - 1))))
    v, d, e = draw(st.sampled_from(SHAPES))
    return {"verb": v, "dir": d, "exc": e, "anything": False,
            "subj": {"kind": draw(st.sampled_from(KINDS)), "names": S}, "obj": {"kind": draw(st.sampled_from(KINDS)), "names": O}}


@st.composite
def forests(draw, root="q", max_modules=14, extra=("x", "x.y", "x.y.z", "lib", "lib.u"), max_depth=4):
    """A tree plus, in a third of the draws, some single-component top-level modules with descendants
    (what an architecture with included external libraries looks like)."""
    tree = draw(trees(root=root, max_modules=max_modules, max_depth=max_depth))
    if draw(st.integers(0, 2)) == 0:
        add = draw(st.lists(st.sampled_from(list(extra)), min_size=1, max_size=3, unique=True))
        tree = sorted(M.closure(set(tree) | set(add)))
    return tree


# a second architecture over partly the same names, to which rule objects are applied first (drive.warmup)
T4_DECOY = {"tree": ["r", "r.a", "r.a.y", "r.b", "r.b.x", "r.d"],
            "imports": [["r.a.y", "r.b.x"], ["r.b", "r.a"], ["r.d", "r.a.y"], ["r.b.x", "r.d"], ["r.a", "r.d"]]}


@st.composite
def decoys(draw, tree, siblings=SIBLINGS):
    """Architecture derived from `tree`: some leaves dropped, some new modules added, its own import relation."""
    mods = set(tree)
    leaves = [m for m in tree if not any(M.is_strict_desc(x, m) for x in tree) and "." in m]
    for m in draw(st.lists(st.sampled_from(leaves), max_size=2, unique=True)) if leaves else []:
        mods.discard(m)
    for _ in range(draw(st.integers(0, 3))):
        parent = draw(st.sampled_from(sorted(mods)))
        mods.add(parent + "." + draw(st.sampled_from(siblings)))
    t2 = sorted(M.closure(mods))
    return {"tree": t2, "imports": [list(e) for e in draw(import_relation(t2, max_edges=8))]}


@st.composite
def preimage(draw, tree, imports):
    """A deeper architecture and a level_limit whose flattening is exactly (tree, imports): modules at the deepest level get
    sub modules, and imports with such an endpoint may start / end at one of the new sub modules instead.
    Returns {} (no pre-image) or {'full_tree', 'full_imports', 'level_limit'}."""
    roots = {m.split(".")[0] for m in tree}
    if len(roots) != 1:
        return {}  # level_limit counts components from one root
    depth = max(len(m.split(".")) for m in tree)
    if depth < 2:
        return {}
    deepest = [m for m in tree if len(m.split(".")) == depth]
    below = {}
    for m in deepest:
        if draw(st.booleans()):
            kids = [m + ".zz"] + ([m + ".zz.w"] if draw(st.booleans()) else []) + ([m + ".a"] if draw(st.booleans()) else [])
            below[m] = kids
    if not below:
        return {}
    full_imports = []
    for u, v in imports:
        u2 = draw(st.sampled_from([u] + below[u])) if u in below else u
        v2 = draw(st.sampled_from([v] + below[v])) if v in below else v
        full_imports.append([u2, v2])
        if draw(st.integers(0, 3)) == 0:
            full_imports.append([u, v])
    # imports between two modules that flatten to the same name vanish in the quotient
    for m, kids in below.items():
        if len(kids) >= 2 and draw(st.booleans()):
            full_imports.append([kids[0], kids[-1]])
    full_tree = sorted(set(tree) | {k for ks in below.values() for k in ks})
    return {"full_tree": full_tree, "full_imports": [list(e) for e in {tuple(e) for e in full_imports}], "level_limit": depth - 1}


def rule_focus(tree, rule) -> set:
    f = set()
    for n in rule["subj"]["names"]:
        f |= M.den(tree, rule["subj"]["kind"], n) | {n}
    if rule.get("obj"):
        for n in rule["obj"]["names"]:
            f |= M.den(tree, rule["obj"]["kind"], n) | {n}
    return f


@st.composite
def rule_cases(draw, root="q", max_modules=14):
    # an eighth of the cases are larger than the rest: up to 22 modules, 7 levels deep, batches of up to 5
    big = draw(st.integers(0, 7)) == 0
    tiny = not big and draw(st.integers(0, 15)) == 0
    if tiny:
        # degenerate architectures: a single module, or a package with one module (every rule there has related sides)
        tree = draw(trees(root=root, max_modules=2, min_modules=1))
    else:
        tree = draw(forests(root=root, max_modules=20 if big else max_modules, max_depth=6 if big else 4))
    n = 5 if big else 3
    # a fifth of the rules have a subject that is the same module as / above / below one of the objects
    rule = draw(related_rule(tree, max_s=n, max_o=n)) if (tiny or draw(st.integers(0, 4)) == 0) else draw(unrelated_rule(tree, max_s=n, max_o=n))
    if draw(st.integers(0, 7)) == 0:
        # one name listed twice on one side (the implementation gets the longer list, the model the set)
        side = draw(st.sampled_from(["subj", "obj"]))
        if rule.get(side) and rule[side]["kind"] in KINDS:
            rule[side]["dup"] = draw(st.integers(0, 4))
    # a quarter of the relations may contain imports from a package node to a module two or more levels below it (a directly
    # built architecture can have them, a scanned one cannot; the statement's set semantics decide them like any other import)
    imports = draw(import_relation(tree, focus=rule_focus(tree, rule), grand=draw(st.integers(0, 3)) == 0))
    spec = {"tree": tree, "imports": [list(e) for e in imports], "rule": rule}
    if not rule.get("anything") and draw(st.integers(0, 5)) == 0:
        # the same rule with one 'named' side given as an anchored regex alternation of exactly those names: the reference
        # model keeps judging the named rule (spec['model_rule']), the implementation gets the regex form
        import copy
        import re

        side = draw(st.sampled_from(["subj", "obj"]))
        if rule[side]["kind"] == "named":
            impl = copy.deepcopy(rule)
            impl[side] = {"kind": "regex", "names": ["|".join(re.escape(n) + "$" for n in rule[side]["names"])]}
            spec["model_rule"], spec["rule"] = rule, impl
    if draw(st.integers(0, 3)) == 0:
        spec["warm"] = draw(decoys(tree))
    if draw(st.integers(0, 4)) == 0:
        spec.update(draw(preimage(tree, imports)))
    return spec


def timed_out(deadline, i, every=64) -> bool:
    return i % every == 0 and time.time() > deadline
