"""The shared case space of C01 / C03 (and a source of rules for C09, C11, C12, C14, C15):
module trees, import relations and Rule descriptions, exhaustive enumerators and Hypothesis strategies."""
from __future__ import annotations

import time
from itertools import combinations

from hypothesis import strategies as st

from . import models as M

SHAPES = [(v, d, e) for v in M.VERBS for d in ("import", "imported") for e in (False, True)]
KINDS = ("named", "sub")

# fixed small trees for the exhaustive tiers ---------------------------------------------------
T4 = ["r", "r.a", "r.a.x", "r.b", "r.c"]
T6 = ["r", "r.a", "r.a.x", "r.a.y", "r.b", "r.b.x", "r.c"]
T5 = ["r", "r.a", "r.a.x", "r.a.x.k", "r.b", "r.b.y"]
TREES = {"T4": T4, "T6": T6, "T5": T5}


def shape_name(rule: dict) -> str:
    if rule.get("anything"):
        return f"should_not.{rule['dir']}.anything"
    return f"{rule['verb']}.{rule['dir']}.{'except' if rule['exc'] else 'plain'}"


def enum_subject_object_sets(tree, max_s=2, max_o=2, root=None):
    """All (S, O) of pairwise-unrelated names, S and O disjoint, 1..max each; sorted lists."""
    names = [m for m in sorted(tree) if m != root]
    out = []
    for ks in range(1, max_s + 1):
        for S in combinations(names, ks):
            if not M.names_unrelated(S):
                continue
            rest = [n for n in names if n not in S and all(not M.related(n, s) for s in S)]
            for ko in range(1, max_o + 1):
                for O in combinations(rest, ko):
                    if M.names_unrelated(O):
                        out.append((list(S), list(O)))
    return out


def enum_rules(tree, max_s=2, max_o=2, root=None):
    """Every rule instantiation with unrelated subjects/objects on this tree (12 shapes + 2 aliases, both kinds)."""
    rules = []
    for S, O in enum_subject_object_sets(tree, max_s, max_o, root):
        for ks in KINDS:
            for ko in KINDS:
                for v, d, e in SHAPES:
                    rules.append(
                        {"verb": v, "dir": d, "exc": e, "anything": False,
                         "subj": {"kind": ks, "names": S}, "obj": {"kind": ko, "names": O}}
                    )
    names = sorted(tree)
    for ks_n in range(1, max_s + 1):
        for S in combinations(names, ks_n):
            if not M.names_unrelated(S):
                continue
            for ks in KINDS:
                for d in ("import", "imported"):
                    rules.append(
                        {"verb": "should_not", "dir": d, "exc": False, "anything": True,
                         "subj": {"kind": ks, "names": list(S)}, "obj": None}
                    )
    return rules


def enum_so_kinds(tree, max_s=2, max_o=2, root=None):
    out = []
    for S, O in enum_subject_object_sets(tree, max_s, max_o, root):
        for ks in KINDS:
            for ko in KINDS:
                out.append(({"kind": ks, "names": S}, {"kind": ko, "names": O}))
    return out


def all_graphs(cand, max_edges=None):
    """Every import relation over the candidate edges (all subsets, or all subsets of at most max_edges edges)."""
    n = len(cand)
    if max_edges is None:
        for mask in range(2 ** n):
            yield [cand[i] for i in range(n) if mask >> i & 1]
    else:
        for k in range(0, max_edges + 1):
            for combo in combinations(cand, k):
                yield list(combo)


def count_graphs(n, max_edges=None) -> int:
    from math import comb

    return 2 ** n if max_edges is None else sum(comb(n, k) for k in range(max_edges + 1))


def graphs_of(cand, shard, nshards, max_edges=None):
    """The shard-th residue class of all_graphs."""
    for i, g in enumerate(all_graphs(cand, max_edges)):
        if i % nshards == shard:
            yield g


# ----------------------------------------------------------------------------------- strategies

SIBLINGS = ["a", "ab", "a_b", "aa", "b", "c", "x"]


@st.composite
def trees(draw, root="q", max_modules=14, max_depth=4, siblings=SIBLINGS, min_modules=3):
    """Random module tree as a sorted list of dotted names (closed under parents)."""
    mods = [root]
    target = draw(st.integers(min_modules, max_modules))
    frontier = [root]
    while len(mods) < target:
        parent = draw(st.sampled_from(frontier))
        if len(parent.split(".")) > max_depth:
            frontier.remove(parent)
            if not frontier:
                break
            continue
        used = {m.rsplit(".", 1)[1] for m in mods if m.rsplit(".", 1)[0] == parent and "." in m}
        free = [s for s in siblings if s not in used]
        if not free:
            frontier.remove(parent)
            if not frontier:
                break
            continue
        child = parent + "." + draw(st.sampled_from(free))
        mods.append(child)
        frontier.append(child)
    return sorted(mods)


@st.composite
def import_relation(draw, tree, focus=(), max_edges=16):
    """Subset of candidate edges; about half of the draws are biased to touch the focus modules."""
    cand = M.candidate_edges(tree)
    if not cand:
        return []
    focus = set(focus)
    hot = [e for e in cand if e[0] in focus or e[1] in focus]
    n = draw(st.integers(0, min(max_edges, len(cand))))
    out = set()
    for _ in range(n):
        pool = hot if (hot and draw(st.booleans())) else cand
        out.add(draw(st.sampled_from(pool)))
    return sorted(out)


@st.composite
def unrelated_rule(draw, tree, max_s=3, max_o=3):
    names = [m for m in tree]
    kind_s = draw(st.sampled_from(KINDS))
    kind_o = draw(st.sampled_from(KINDS))
    anything = draw(st.integers(0, 6)) == 0
    pool = list(names)
    chosen = []
    want = draw(st.integers(1, max_s)) + (0 if anything else draw(st.integers(1, max_o)))
    n_s = None
    order = draw(st.permutations(pool))
    for n in order:
        if all(not M.related(n, c) for c in chosen):
            chosen.append(n)
            if len(chosen) == want:
                break
    if anything:
        S = sorted(chosen) if chosen else [tree[0]]
        d = draw(st.sampled_from(("import", "imported")))
        return {"verb": "should_not", "dir": d, "exc": False, "anything": True,
                "subj": {"kind": kind_s, "names": S}, "obj": None}
    if len(chosen) < 2:
        # tree too small for two unrelated names: fall back to the alias
        d = draw(st.sampled_from(("import", "imported")))
        return {"verb": "should_not", "dir": d, "exc": False, "anything": True,
                "subj": {"kind": kind_s, "names": [chosen[0] if chosen else tree[0]]}, "obj": None}
    n_s = draw(st.integers(1, min(max_s, len(chosen) - 1)))
    S, O = sorted(chosen[:n_s]), sorted(chosen[n_s: n_s + max_o])
    v, d, e = draw(st.sampled_from(SHAPES))
    return {"verb": v, "dir": d, "exc": e, "anything": False,
            "subj": {"kind": kind_s, "names": S}, "obj": {"kind": kind_o, "names": O}}


def rule_focus(tree, rule) -> set:
    f = set()
    for n in rule["subj"]["names"]:
        f |= M.den(tree, rule["subj"]["kind"], n) | {n}
    if rule.get("obj"):
        for n in rule["obj"]["names"]:
            f |= M.den(tree, rule["obj"]["kind"], n) | {n}
    return f


@st.composite
def rule_cases(draw, root="q", max_modules=14):
    tree = draw(trees(root=root, max_modules=max_modules))
    rule = draw(unrelated_rule(tree))
    imports = draw(import_relation(tree, focus=rule_focus(tree, rule)))
    return {"tree": tree, "imports": [list(e) for e in imports], "rule": rule}


def timed_out(deadline, i, every=64) -> bool:
    return i % every == 0 and time.time() > deadline
