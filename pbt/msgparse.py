"""Violation message -> structured lines. One regex per documented line shape (LANGUAGE_DEFINTION.md,
'Rule Violation Messages'). A line that parses as none of them is reported as ('unparsed', text)."""
from __future__ import annotations

import re

Q = r'"([^"]*)"'
TAG = r'(?: \((no layer|layer "[^"]*")\))?'

PAIR = re.compile(rf"^{Q}{TAG} (imports|is imported by) {Q}{TAG}\.$")
MISSING = re.compile(
    rf'^(Sub modules of )?{Q} (does not import|do not import|is not imported by|are not imported by) (any module that is not )?(.*)\.$'
)
OBJ_ITEM = re.compile(rf"^(a sub module of )?{Q}$")
L_MISSING = re.compile(
    rf'^Layer {Q} (does not import|is not imported by) (any layer that is not )?(.*)\.$'
)
L_OBJ_ITEM = re.compile(rf"^layer {Q}$")


def _tag(t):
    if t is None:
        return None
    if t == "no layer":
        return ("none",)
    return ("layer", t[len('layer "'):-1])


def parse_line(line: str):
    m = PAIR.match(line)
    if m:
        a, ta, verb, b, tb = m.groups()
        return {
            "type": "pair",
            "subj": a,
            "obj": b,
            "verb": "import" if verb == "imports" else "imported",
            "subj_tag": _tag(ta),
            "obj_tag": _tag(tb),
        }
    m = L_MISSING.match(line)
    if m:
        layer, verb, anyflag, rest = m.groups()
        objs = []
        for item in rest.split(", "):
            mi = L_OBJ_ITEM.match(item)
            if not mi:
                return {"type": "unparsed", "text": line}
            objs.append(mi.group(1))
        return {
            "type": "layer_missing_other" if anyflag else "layer_missing_edge",
            "subj": layer,
            "verb": "import" if "import" in verb and "imported" not in verb else "imported",
            "objs": objs,
        }
    m = MISSING.match(line)
    if m:
        grp, subj, verb, anyflag, rest = m.groups()
        objs = []
        for item in rest.split(", "):
            mi = OBJ_ITEM.match(item)
            if not mi:
                return {"type": "unparsed", "text": line}
            objs.append((mi.group(2), bool(mi.group(1))))
        plural = verb.startswith("do ") or verb.startswith("are ")
        return {
            "type": "missing_other" if anyflag else "missing_edge",
            "subj": subj,
            "subj_group": bool(grp),
            "plural": plural,
            "verb": "imported" if "imported" in verb else "import",
            "objs": objs,
        }
    return {"type": "unparsed", "text": line}


def parse_message(msg: str) -> list:
    return [parse_line(line) for line in msg.split("\n")]
