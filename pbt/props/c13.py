"""C13 - undefined or incomplete specifications never produce a verdict."""
from __future__ import annotations

import os
import re
import tempfile
import time
from itertools import product
from pathlib import Path

from hypothesis import strategies as st

from pytestarch import DiagramRule, LayeredArchitecture, LayerRule, Rule

from .. import models as M
from .. import rulespace as RS
from ..drive import Project, eval_layer_rule, eval_rule, make_evaluable, outcome, reuse_aware, scan_outcome, snapshot

ID = "C13"
MOD = __name__

RULE_TEXT = (
    "(A) every Rule call sequence up to length 4 (quick) / 5 (thorough) over a 16-call vocabulary (incl. empty list, "
    "unknown name, regex without match) and every sequence of length 5 (6) over a 9-call core vocabulary, every LayerRule sequence up to length 6 / 7 (cut at the first raising call) and "
    "every DiagramRule sequence up to length 4, each followed by assert_applies; plus every single insertion (of every call of the vocabulary at every position), deletion, duplication "
    "and adjacent transposition of every complete canonical chain. A specification automaton written from the property "
    "text classifies a history as must-error or no-claim; must-error histories have to raise a non-assertion error "
    "somewhere and never return a verdict. (B) random architectures (direct and level-limited) with rules / layer rules "
    "mentioning one absent name (misspelt, prefix-sharing, below the level limit, child of a leaf) alone or inside a "
    "batch, all 12 shapes + aliases. (C) all 2^5 entry-point option combinations x 7 module_path placements x both entry points (paths, module objects) on a small "
    "on-disk project. Non-trivial: must-error history of >= 3 calls, or absent name sharing a prefix with an existing one, "
    "or an invalid option combination."
)
ASSUMPTIONS = [
    "'configuration or lookup error' = any exception that is not AssertionError",
    "histories in which layers_that() is called twice are not classified (resetting the rule is not documented)",
]

# ------------------------------------------------------------------------ (A) Rule histories

TREE = ["r", "r.a", "r.a.x", "r.b", "r.c"]
IMPORTS = [("r.a.x", "r.b"), ("r.b", "r.c"), ("r.c", "r.a")]
_EV = None


def ev():
    global _EV
    if _EV is None:
        _EV = make_evaluable(TREE, IMPORTS)
    return _EV


SPEC = {"are_named", "are_sub_modules_of", "have_name_matching"}
VERBS = {"should", "should_only", "should_not"}
IMPS = {"import_modules_that", "be_imported_by_modules_that", "import_modules_except_modules_that",
        "be_imported_by_modules_except_modules_that"}
ANYS = {"import_anything", "be_imported_by_anything"}

RULE_OPS = [("modules_that",), ("are_named", "r.a"), ("are_named", "r.b"), ("are_sub_modules_of", "r.a"),
            ("have_name_matching", r"r\.c$"), ("are_named", []), ("are_named", "r.zzz"), ("have_name_matching", "zzz"),
            ("should",), ("should_only",), ("should_not",),
            ("import_modules_that",), ("be_imported_by_modules_that",), ("import_modules_except_modules_that",),
            ("import_anything",), ("be_imported_by_anything",)]
RULE_OPS_FULL = RULE_OPS + [("be_imported_by_modules_except_modules_that",), ("are_sub_modules_of", "r.q")]


def spec_bad(spec) -> bool:
    k, arg = spec
    names = [arg] if isinstance(arg, str) else list(arg)
    if not names:
        return True
    if k == "have_name_matching":
        return not any(re.match(names[0], m) for m in TREE)
    return any(n not in TREE for n in names)


class RuleChainAutomaton:
    def __init__(self):
        self.pos = None
        self.subj = None
        self.obj = None
        self.verbs = set()
        self.imp = False
        self.anything = False
        self.early_spec = False

    def step(self, op):
        k = op[0]
        if k == "modules_that":
            self.pos = "subject"
        elif k in SPEC:
            if self.pos is None:
                self.early_spec = True
            elif self.pos == "subject":
                self.subj = (k, op[1])
            else:
                self.obj = (k, op[1])
        elif k in VERBS:
            self.verbs.add(k)
        elif k in IMPS:
            self.imp = True
            self.pos = "object"
        elif k in ANYS:
            self.imp = True
            self.anything = True
            self.pos = "object"

    def reasons(self) -> list:
        r = []
        if self.early_spec:
            r.append("module-spec-before-position")
        if not self.verbs:
            r.append("verb-missing")
        if not self.imp:
            r.append("import-type-missing")
        if self.subj is None:
            r.append("subject-missing")
        elif spec_bad(self.subj):
            r.append("subject-undefined")
        if self.anything:
            if "should_not" not in self.verbs and self.verbs:
                r.append("anything-without-should_not")
        else:
            if self.obj is None and self.imp:
                r.append("object-missing")
            elif self.obj is not None and spec_bad(self.obj):
                r.append("object-undefined")
        if "should_not" in self.verbs and len(self.verbs) > 1:
            r.append("should_not-with-other-verb")
        return r


def apply(obj, op):
    k = op[0]
    if len(op) > 1:
        arg = op[1]
        return getattr(obj, k)(list(arg) if isinstance(arg, list) else arg)
    return getattr(obj, k)()


def run_rule_history(seq) -> dict:
    aut = RuleChainAutomaton()
    rule = Rule()
    kind, msg = None, None
    for op in seq:
        aut.step(op)
        o = outcome(lambda: apply(rule, op))
        if o[0] != "pass":
            kind, msg = o
            break
    if kind is None:
        kind, msg = outcome(lambda: rule.assert_applies(ev()))
    reasons = aut.reasons()
    viols = []
    if reasons and kind != "error":
        viols.append({"sig": f"C13/rule-history/{reasons[0]}/got={kind}", "key": {"reason": reasons[0], "got": kind},
                      "detail": f"history {seq} + assert_applies: must raise a configuration/lookup error ({reasons}) but gave {kind}: {msg!r}"})
    return {"violations": viols, "nontrivial": bool(reasons) and len(seq) >= 3,
            "labels": ["rule-history", "must-error" if reasons else "no-claim", f"outcome={kind}"] + [f"why={x}" for x in reasons[:1]]}


# ------------------------------------------------------------------------ (A) LayerRule histories

L_OPS = [("based_on",), ("layers_that",), ("are_named", "L1"), ("are_named", "L2"), ("are_named", ["L1", "L2"]),
         ("are_named", "nope"), ("are_named", "L3"), ("are_named", ["L2", "L3"]), ("should",), ("should_only",), ("should_not",),
         ("access_layers_that",), ("be_accessed_by_layers_that",), ("access_layers_except_layers_that",),
         ("be_accessed_by_layers_except_layers_that",), ("access_any_layer",), ("be_accessed_by_any_layer",)]
L_IMPS = {"access_layers_that", "be_accessed_by_layers_that", "access_layers_except_layers_that",
          "be_accessed_by_layers_except_layers_that"}
L_ANYS = {"access_any_layer", "be_accessed_by_any_layer"}


def _layer_arch():
    # L3 is opened last and never receives modules: an incomplete definition that only matters when a rule names it
    return LayeredArchitecture().layer("L1").containing_modules(["r.a"]).layer("L2").containing_modules(["r.b"]).layer("L3")


class LayerChainAutomaton:
    def __init__(self):
        self.arch = False
        self.started = 0
        self.pos = None
        self.subj = False
        self.obj = False
        self.verbs = set()
        self.imp = False
        self.anything = False
        self.bad = []

    def step(self, op):
        k = op[0]
        if k == "based_on":
            if self.arch:
                self.bad.append("second-architecture")
            self.arch = True
        elif k == "layers_that":
            if not self.arch:
                self.bad.append("no-architecture")
            self.started += 1
            self.pos = "subject"
        elif not self.started:
            self.bad.append("call-before-layers_that")
        elif k == "are_named":
            if op[1] == "nope":
                self.bad.append("undefined-layer")
            elif "L3" in (op[1] if isinstance(op[1], list) else [op[1]]):
                self.bad.append("layer-without-modules")
                if self.pos == "subject":
                    self.subj = True
                else:
                    self.obj = True
            elif self.pos == "subject":
                if isinstance(op[1], list) or self.subj:
                    self.bad.append("not-exactly-one-subject")
                self.subj = True
            else:
                self.obj = True
        elif k in VERBS:
            self.verbs.add(k)
        elif k in L_IMPS:
            self.imp = True
            self.pos = "object"
        elif k in L_ANYS:
            self.imp = True
            self.anything = True
            self.pos = "object"

    def reasons(self):
        if self.started > 1:
            return None  # not classified
        r = list(self.bad)
        if not self.started:
            r.append("no-layers_that")
        if not self.verbs:
            r.append("verb-missing")
        if not self.imp:
            r.append("access-type-missing")
        if not self.subj:
            r.append("subject-missing")
        if self.anything:
            if "should_not" not in self.verbs and self.verbs:
                r.append("any-layer-without-should_not")
        elif self.imp and not self.obj:
            r.append("object-missing")
        if "should_not" in self.verbs and len(self.verbs) > 1:
            r.append("should_not-with-other-verb")
        return r


def apply_layer(rule, op):
    if op[0] == "based_on":
        return rule.based_on(_layer_arch())
    return apply(rule, op)


def run_layer_history(seq) -> dict:
    aut = LayerChainAutomaton()
    rule = LayerRule()
    kind, msg = None, None
    raised_at = None
    for i, op in enumerate(seq):
        aut.step(op)
        o = outcome(lambda: apply_layer(rule, op))
        if o[0] != "pass":
            kind, msg = o
            raised_at = i
            break
    if kind is None:
        kind, msg = outcome(lambda: rule.assert_applies(ev()))
    reasons = aut.reasons()
    viols = []
    if reasons and kind != "error":
        viols.append({"sig": f"C13/layer-history/{reasons[0]}/got={kind}", "key": {"reason": reasons[0], "got": kind},
                      "detail": f"history {seq} + assert_applies: must raise a configuration/lookup error ({reasons}) but gave {kind}: {msg!r}"})
    cls = "not-classified" if reasons is None else ("must-error" if reasons else "no-claim")
    return {"violations": viols, "nontrivial": bool(reasons) and len(seq) >= 3, "raised_at": raised_at,
            "labels": ["layer-history", cls, f"outcome={kind}"] + [f"why={x}" for x in (reasons or [])[:1]]}


# ------------------------------------------------------------------------ (A) DiagramRule histories

_PUML = {}


def puml_files():
    if not _PUML:
        d = Path(tempfile.mkdtemp(prefix="pbt_c13_"))
        good = d / "good.puml"
        good.write_text("@startuml\n[a] --> [b]\n@enduml\n")
        notags = d / "notags.puml"
        notags.write_text("[a] --> [b]\n")
        nostart = d / "nostart.puml"
        nostart.write_text("[a] --> [b]\n@enduml\n")
        noend = d / "noend.puml"
        noend.write_text("some text\n@startuml\n[a] --> [b]\n")
        swapped = d / "swapped.puml"  # an end tag in front of the start tag is not a pair of tags around a diagram
        swapped.write_text("@enduml\n[a] --> [b]\n@startuml\n")
        _PUML.update(good=str(good), notags=str(notags), nostart=str(nostart), noend=str(noend), swapped=str(swapped), dir=str(d))
    return _PUML


D_OPS = [("from_file", "good"), ("from_file", "notags"), ("from_file", "nostart"), ("from_file", "noend"), ("from_file", "swapped"),
         ("with_base_module", "r"),
         ("base_module_included_in_module_names",)]


def run_diagram_history(seq) -> dict:
    files = puml_files()
    rule = DiagramRule()
    eff = None
    kind, msg = None, None
    for op in seq:
        if op[0] == "from_file":
            eff = op[1]
            o = outcome(lambda: rule.from_file(Path(files[op[1]])))
        else:
            o = outcome(lambda: apply(rule, op))
        if o[0] != "pass":
            kind, msg = o
            break
    if kind is None:
        kind, msg = outcome(lambda: rule.assert_applies(ev()))
    reasons = []
    if eff is None:
        reasons.append("no-file")
    elif eff != "good":
        reasons.append("no-start-end-tags")
    viols = []
    if reasons and kind != "error":
        viols.append({"sig": f"C13/diagram-history/{reasons[0]}/got={kind}", "key": {"reason": reasons[0]},
                      "detail": f"history {seq}: must raise, gave {kind}: {msg!r}"})
    return {"violations": viols, "nontrivial": bool(reasons) and len(seq) >= 2,
            "labels": ["diagram-history", "must-error" if reasons else "no-claim", f"outcome={kind}"]}


# ------------------------------------------------------------------------ canonical chains and their mutations


def canonical_rule_chains():
    chains = []
    for subj in (("are_named", "r.a"), ("are_sub_modules_of", "r.a"), ("have_name_matching", r"r\.c$"), ("are_named", ["r.a", "r.b"])):
        for v in sorted(VERBS):
            for imp in sorted(IMPS):
                for obj in (("are_named", "r.b"), ("are_sub_modules_of", "r.a"), ("are_named", ["r.b", "r.c"])):
                    chains.append([("modules_that",), subj, (v,), (imp,), obj])
            for a in sorted(ANYS):
                chains.append([("modules_that",), subj, (v,), (a,)])
    return chains


def canonical_layer_chains():
    chains = []
    for v in sorted(VERBS):
        for imp in sorted(L_IMPS):
            for obj in (("are_named", "L2"), ("are_named", ["L1", "L2"])):
                chains.append([("based_on",), ("layers_that",), ("are_named", "L1"), (v,), (imp,), obj])
        for a in sorted(L_ANYS):
            chains.append([("based_on",), ("layers_that",), ("are_named", "L1"), (v,), (a,)])
    return chains


def insertions(chain, vocabulary):
    """Every call of the vocabulary inserted at every position of a complete chain (a second verb, a second import type,
    a further module list ...): the rest of the chain stays complete, so the inserted call is the only possible defect."""
    out = []
    for i in range(len(chain) + 1):
        for op in vocabulary:
            out.append(chain[:i] + [op] + chain[i:])
    return out


def mutations(chain):
    out = []
    n = len(chain)
    for i in range(n):
        out.append(chain[:i] + chain[i + 1:])
        out.append(chain[:i + 1] + chain[i:])
    for i in range(n - 1):
        out.append(chain[:i] + [chain[i + 1], chain[i]] + chain[i + 2:])
    return out


# ------------------------------------------------------------------------ (B) names


def absent_names(tree, level_limit=None) -> list:
    out = []
    for m in tree:
        out.append(("misspelt", m + "x"))
        out.append(("prefix", m[:-1]) if len(m.rsplit(".", 1)[-1]) > 1 else ("misspelt", m + "_"))
        out.append(("child-of-existing", m + ".zz"))
    return [(k, n) for k, n in out if n not in tree]


@reuse_aware
def check_name_case(spec: dict) -> dict:
    tree, imports = spec["tree"], [tuple(e) for e in spec["imports"]]
    limit = spec.get("level_limit")
    evl = make_evaluable(tree, imports, limit)
    present = set(evl.modules)
    mention = spec["absent"]
    assert mention not in present, "harness: name is present"
    if spec["form"] == "rule":
        kind, msg = eval_rule(spec["rule"], evl)
    elif spec["form"] == "diagram":
        kind, msg = eval_diagram(spec["diagram"], evl)
    else:
        kind, msg = eval_layer_rule(spec["layers"], spec["rule"], evl)
    viols = []
    slot = spec["slot"]
    if kind != "error":
        viols.append({"sig": f"C13/absent-name/{spec['form']}/{slot}/got={kind}", "key": {"slot": slot, "form": spec["form"]},
                      "detail": f"{spec['form']} mentions absent name {mention!r} in {slot} but produced {kind}: {msg!r}; rule={spec.get('rule') or spec.get('diagram')}"})
    shares = any(m != mention and (m.startswith(mention) or mention.startswith(m)) for m in present)
    return {"violations": viols, "nontrivial": shares,
            "labels": [f"absent/{spec['form']}", f"slot={slot}", f"why={spec['why']}", "limited" if limit else "full", f"outcome={kind}"]}


def eval_diagram(d: dict, ev) -> tuple:
    """d: {components: [fully qualified names], arrows: [[a, b]], should_only}"""
    import os
    from pathlib import Path

    from pytestarch import DiagramRule

    from ..drive import write_puml

    lines = [f"[{c}]" for c in d["components"]] + [f"[{a}] --> [{b}]" for a, b in d["arrows"]]
    path = write_puml("@startuml\n" + "\n".join(lines) + "\n@enduml\n")
    try:
        rule = DiagramRule(should_only_rule=d["should_only"]).from_file(Path(path)).base_module_included_in_module_names()
        return outcome(lambda: rule.assert_applies(ev))
    finally:
        os.unlink(path)


@st.composite
def diagram_name_cases(draw):
    """A diagram over 2-3 existing unrelated modules plus one absent name; imports chosen freely, so that pairwise rules
    that do not mention the absent component may well be violated before the one that does is evaluated."""
    tree = draw(RS.trees(root="q", max_modules=10, min_modules=4))
    units = []
    for n in draw(st.permutations([m for m in tree if m != "q"])):
        if all(not M.related(n, u) for u in units):
            units.append(n)
    comps = units[: draw(st.integers(2, 3))]
    if len(comps) < 2:
        tree = ["q", "q.a", "q.b", "q.c"]
        comps = ["q.a", "q.b"]
    why, absent = draw(st.sampled_from(absent_names(tree)))
    names = list(draw(st.permutations(comps + [absent])))
    pairs = [(a, b) for a in names for b in names if a != b]
    arrows = draw(st.lists(st.sampled_from(pairs), max_size=4, unique=True))
    imports = draw(RS.import_relation(tree, focus=set(comps), max_edges=8))
    return {"tree": tree, "imports": [list(x) for x in imports], "level_limit": None, "absent": absent, "why": why, "form": "diagram",
            "slot": "component" + ("-with-arrow" if any(absent in a for a in arrows) else "-isolated"),
            "diagram": {"components": names, "arrows": [list(a) for a in arrows], "should_only": draw(st.booleans())}}


@st.composite
def name_cases(draw):
    if draw(st.integers(0, 5)) == 0:
        return draw(diagram_name_cases())
    spec = draw(plain_name_cases())
    if draw(st.integers(0, 2)) == 0:
        # the rule object is first applied to an architecture in which the name does exist (no level limit, the absent
        # module added), then to the one in which it does not
        t2 = sorted(M.closure(set(spec["tree"]) | {spec["absent"]}))
        spec["warm"] = {"tree": t2, "imports": [list(e) for e in draw(RS.import_relation(t2, max_edges=8))]}
    return spec


@st.composite
def plain_name_cases(draw):
    tree = draw(RS.trees(root="q", max_modules=10))
    limit = draw(st.sampled_from([None, None, 1, 2]))
    flat = sorted({".".join(m.split(".")[: limit + 1]) for m in tree}) if limit else list(tree)
    imports = draw(RS.import_relation(tree, max_edges=8))
    cands = absent_names(flat)
    if limit:
        cands += [("below-level-limit", m) for m in tree if m not in flat]
    why, absent = draw(st.sampled_from(cands))
    existing = draw(st.lists(st.sampled_from(flat), min_size=1, max_size=2, unique=True))
    other = draw(st.sampled_from(flat))
    form = draw(st.sampled_from(["rule", "rule", "layer"]))
    if form == "rule":
        slot = draw(st.sampled_from(["subject", "object", "subject-batch", "object-batch", "subject-regex", "object-regex",
                                     "subject-partial-batch", "object-partial-batch", "subject-regex-batch", "object-regex-batch"]))
        kind = draw(st.sampled_from(["named", "sub"]))
        v, d, e = draw(st.sampled_from(RS.SHAPES))
        anything = slot.startswith("subject") and draw(st.integers(0, 3)) == 0
        if slot.endswith("regex-batch"):
            # a list of regular expressions, written with plain dots as users do; the one for the absent name matches nothing
            esc = draw(st.booleans())
            rxs = [(re.escape(n) if esc else n) + draw(st.sampled_from(["$", ""])) for n in existing] + [(re.escape(absent) if esc else absent) + draw(st.sampled_from(["$", ""]))]
            if any(re.match(rxs[-1], m) for m in flat):
                rxs[-1] = re.escape(absent) + "$"
            bad_side = {"kind": "regex-batch", "names": list(draw(st.permutations(rxs)))}
        elif slot.endswith("regex"):
            bad_side = {"kind": "regex", "names": [re.escape(absent) + "$"]}
        elif slot.endswith("partial-batch"):
            # several partial names in one call; exactly one of them matches nothing (its position varies)
            good = [draw(st.sampled_from([e, e + "*", "*" + e.rsplit(".", 1)[-1]])) for e in existing]
            names = draw(st.permutations(good + [absent]))
            bad_side = {"kind": "partial", "names": list(names), "as_str": False}
            anything = False
        elif slot.endswith("batch"):
            names = draw(st.permutations(existing + [absent]))
            bad_side = {"kind": kind, "names": list(names), "as_str": False}
        else:
            bad_side = {"kind": kind, "names": [absent]}
        good_side = {"kind": draw(st.sampled_from(["named", "sub"])), "names": [other]}
        if slot.startswith("subject"):
            rule = {"verb": "should_not" if anything else v, "dir": d, "exc": False if anything else e, "anything": anything,
                    "subj": bad_side, "obj": None if anything else good_side}
        else:
            rule = {"verb": v, "dir": d, "exc": e, "anything": False, "subj": good_side, "obj": bad_side}
        return {"tree": tree, "imports": [list(x) for x in imports], "level_limit": limit, "absent": absent, "why": why,
                "form": "rule", "slot": slot + ("+anything" if anything else ""), "rule": rule}
    # layer rule: the absent name (or a regex matching nothing) defines a layer that the rule mentions
    slot = draw(st.sampled_from(["subject-layer", "object-layer", "subject-layer-regex", "object-layer-regex", "undefined-layer",
                                 "object-layers-regex-batch"]))
    units = []
    for n in draw(st.permutations(flat)):
        if n != flat[0] and all(not M.related(n, u) for u in units):
            units.append(n)
    good1 = units[:1] or [flat[0]]
    good2 = units[1:2] or good1
    bad_def = ({"name": "LB", "kind": "regex", "regex": re.escape(absent) + "$", "modules": []}
               if slot.endswith("regex") else
               {"name": "LB", "kind": "names", "modules": [absent] + (good2 if draw(st.booleans()) and good2 != good1 else []), "as_str": False})
    layers = [{"name": "LG", "kind": "names", "modules": good1, "as_str": False}, bad_def]
    v, d, e = draw(st.sampled_from(RS.SHAPES))
    dd = "access" if d == "import" else "accessed"
    if slot == "object-layers-regex-batch":
        # two regex-defined object layers, one matching modules and one matching nothing, in either order
        lr = {"name": "LR", "kind": "regex", "regex": re.escape(good2[0]) + "$", "modules": good2[:1]}
        lb = {"name": "LB", "kind": "regex", "regex": re.escape(absent) + "$", "modules": []}
        if good2[0] == good1[0]:
            lr = None
        layers = [layers[0]] + ([lr] if lr else []) + [lb]
        objs = draw(st.permutations([l["name"] for l in layers[1:]]))
        rule = {"verb": v, "dir": dd, "exc": e, "anything": False, "subj": "LG", "obj": list(objs), "obj_as_str": False}
    elif slot == "undefined-layer":
        layers = layers[:1] + [{"name": "LB", "kind": "names", "modules": good2 if good2 != good1 else [flat[0]], "as_str": False}]
        if layers[1]["modules"] == layers[0]["modules"]:
            layers = layers[:1]
        rule = {"verb": v, "dir": dd, "exc": e, "anything": False, "subj": "LG", "obj": ["LX"]}
    elif slot.startswith("subject"):
        rule = {"verb": v, "dir": dd, "exc": e, "anything": False, "subj": "LB", "obj": ["LG"]}
    else:
        rule = {"verb": v, "dir": dd, "exc": e, "anything": False, "subj": "LG", "obj": ["LB"]}
    return {"tree": tree, "imports": [list(x) for x in imports], "level_limit": limit, "absent": absent, "why": why,
            "form": "layer", "slot": slot, "layers": layers, "rule": rule}


def names_strategy(tier):
    return name_cases()


# ------------------------------------------------------------------------ (C) entry points

OPTS = ["exclusions", "regex_exclusions", "external_exclusions", "regex_external_exclusions", "include_external"]
PATHS = ["equal", "inside", "outside", "sibling-prefix", "outside-via-dotdot", "parent-via-dotdot", "inside-via-dotdot"]


def check_entry_case(spec: dict) -> dict:
    files = {"__init__.py": "", "a/__init__.py": "", "a/m.py": "import os\nfrom proj.b import n\n", "b/__init__.py": "",
             "b/n.py": "import logging.handlers\n"}
    with Project("proj", files) as pr:
        base = pr.base
        (base / "proj2" / "a").mkdir(parents=True)
        (base / "proj2" / "a" / "k.py").write_text("")
        (base / "other").mkdir()
        (base / "other" / "z.py").write_text("")
        mp = {"equal": pr.path(), "inside": pr.path("a"), "outside": str(base / "other"),
              "sibling-prefix": str(base / "proj2" / "a"),
              # the same places spelt with '..' components
              "outside-via-dotdot": pr.path() + "/../other", "parent-via-dotdot": pr.path() + "/a/../..",
              "inside-via-dotdot": pr.path() + "/b/../a"}[spec["module_path"]]
        kw = {}
        on = set(spec["opts"])
        if "exclusions" in on:
            kw["exclusions"] = ("*n.py",)
        if "regex_exclusions" in on:
            kw["regex_exclusions"] = (r".*n\.py$",)
            if "exclusions" not in on:
                kw["exclusions"] = ()  # the documented way to use regex_exclusions alone
        if "external_exclusions" in on:
            kw["external_exclusions"] = ("logging*",)
        if "regex_external_exclusions" in on:
            kw["regex_external_exclusions"] = ("logging.*",)
        kw["exclude_external_libraries"] = "include_external" not in on
        if spec.get("via") == "module-objects":
            # the same request through the module-object entry point (what 'import proj' / 'import proj.a' would hand over)
            import types as _types

            from pytestarch import get_evaluable_architecture_for_module_objects as _gea_obj

            def _mod(name, directory):
                m = _types.ModuleType(name)
                m.__file__ = os.path.join(directory, "__init__.py")
                m.__path__ = [directory]
                return m

            try:
                ev = _gea_obj(_mod("proj", pr.path()), _mod("sub", mp), **kw)
                res = ("ok", snapshot(ev), ev)
            except Exception as e:  # noqa: BLE001
                res = ("error", f"{type(e).__name__}: {e}", None)
        else:
            res = scan_outcome(pr.path(), mp, **kw)
    reasons = []
    if {"exclusions", "regex_exclusions"} <= on:
        reasons.append("glob-and-regex-exclusions")
    if {"external_exclusions", "regex_external_exclusions"} <= on:
        reasons.append("glob-and-regex-external-exclusions")
    if "include_external" not in on and ({"external_exclusions", "regex_external_exclusions"} & on):
        reasons.append("external-patterns-while-externals-excluded")
    if spec["module_path"] in ("outside", "sibling-prefix", "outside-via-dotdot", "parent-via-dotdot"):
        reasons.append("module-path-outside-root")
    viols = []
    if reasons and res[0] != "error":
        viols.append({"sig": f"C13/entry-point/{reasons[0]}", "key": {"reason": reasons[0]},
                      "detail": f"options {sorted(on)} module_path={spec['module_path']} must be rejected ({reasons}) but an architecture was built"})
    return {"violations": viols, "nontrivial": bool(reasons),
            "labels": ["entry-point", "must-error" if reasons else "valid", f"outcome={res[0]}", f"via={spec.get('via', 'paths')}"]}


# ------------------------------------------------------------------------ dispatch


def _norm(seq):
    return [tuple([o[0]] + ([list(o[1]) if isinstance(o[1], list) else o[1]] if len(o) > 1 else [])) for o in seq]


def check_case(spec: dict) -> dict:
    t = spec.get("type") or ("name" if "absent" in spec else None)  # absent-name cases are generated without a type tag
    if t == "rule-history":
        return run_rule_history(_norm(spec["seq"]))
    if t == "layer-history":
        r = run_layer_history(_norm(spec["seq"]))
        r.pop("raised_at", None)
        return r
    if t == "diagram-history":
        return run_diagram_history(_norm(spec["seq"]))
    if t == "name":
        return check_name_case(spec)
    if t == "entry":
        return check_entry_case(spec)
    raise ValueError(t)


def check_name(spec):
    return check_name_case(spec)


def exh_rule_hist(arg, stt, deadline) -> None:
    first, max_len, full = arg
    ops = RULE_OPS_FULL if full else RULE_OPS
    i = 0
    for n in range(0, max_len):
        for rest in product(ops, repeat=n):
            seq = [ops[first]] + list(rest)
            i += 1
            if RS.timed_out(deadline, i, 512):
                stt.truncated = True
                return
            res = run_rule_history(seq)
            res["labels"] = res["labels"][1:]
            stt.record({"type": "rule-history", "seq": [list(o) for o in seq]}, res, enumerated=True, sample=(i % 4099 == 11))


CORE_OPS = [("modules_that",), ("are_named", "r.a"), ("are_named", "r.b"), ("are_sub_modules_of", "r.a"), ("should",), ("should_not",),
            ("import_modules_that",), ("be_imported_by_modules_except_modules_that",), ("import_anything",)]


def exh_rule_hist_core(arg, stt, deadline) -> None:
    """Longer histories over the core vocabulary (every position/verb/import-type/alias interaction)."""
    first, length = arg
    i = 0
    for rest in product(CORE_OPS, repeat=length - 1):
        seq = [CORE_OPS[first]] + list(rest)
        i += 1
        if RS.timed_out(deadline, i, 512):
            stt.truncated = True
            return
        res = run_rule_history(seq)
        res["labels"] = res["labels"][1:]
        stt.record({"type": "rule-history", "seq": [list(o) for o in seq]}, res, enumerated=True, sample=(i % 9973 == 11))


def _layer_dfs(prefix, max_len, stt, deadline, counter):
    for op in L_OPS:
        seq = prefix + [op]
        counter[0] += 1
        if counter[0] % 256 == 0 and time.time() > deadline:
            stt.truncated = True
            return
        res = run_layer_history(seq)
        raised_at = res.pop("raised_at")
        res["labels"] = res["labels"][1:]
        stt.record({"type": "layer-history", "seq": [list(o) for o in seq]}, res, enumerated=True, sample=(counter[0] % 2999 == 7))
        if raised_at is None and len(seq) < max_len:
            _layer_dfs(seq, max_len, stt, deadline, counter)
            if stt.truncated:
                return


def exh_layer_hist(arg, stt, deadline) -> None:
    first, max_len = arg
    seq = [L_OPS[i] for i in first]
    res = run_layer_history(seq)
    raised_at = res.pop("raised_at")
    if raised_at is not None and raised_at < len(seq) - 1:
        return
    stt.record({"type": "layer-history", "seq": [list(o) for o in seq]}, res, enumerated=True)
    if raised_at is None and len(seq) < max_len:
        _layer_dfs(seq, max_len, stt, deadline, [0])


def exh_misc(arg, stt, deadline) -> None:
    what = arg
    if what == "diagram":
        for n in range(0, 5):
            for seq in product(D_OPS, repeat=n):
                res = run_diagram_history(list(seq))
                stt.record({"type": "diagram-history", "seq": [list(o) for o in seq]}, res, enumerated=True, sample=(n == 2))
    elif what == "mutations-rule":
        seen = set()
        for chain in canonical_rule_chains():
            for m in [chain] + mutations(chain) + insertions(chain, RULE_OPS_FULL):
                key = repr(m)
                if key in seen:
                    continue
                seen.add(key)
                res = run_rule_history(m)
                res["labels"] = ["mutated-rule-chain"] + res["labels"][1:]
                stt.record({"type": "rule-history", "seq": [list(o) for o in m]}, res, enumerated=True, sample=(len(seen) % 701 == 1))
    elif what == "mutations-layer":
        seen = set()
        for chain in canonical_layer_chains():
            for m in [chain] + mutations(chain) + insertions(chain, L_OPS):
                key = repr(m)
                if key in seen:
                    continue
                seen.add(key)
                res = run_layer_history(m)
                res.pop("raised_at")
                res["labels"] = ["mutated-layer-chain"] + res["labels"][1:]
                stt.record({"type": "layer-history", "seq": [list(o) for o in m]}, res, enumerated=True, sample=(len(seen) % 301 == 1))
    elif what == "entry":
        for bits in product([0, 1], repeat=len(OPTS)):
            for mp in PATHS:
                for via in ("paths", "module-objects"):
                    spec = {"type": "entry", "opts": [o for o, b in zip(OPTS, bits) if b], "module_path": mp, "via": via}
                    res = check_entry_case(spec)
                    stt.record(spec, res, enumerated=True, sample=(sum(bits) == 2 and mp == "inside"))


def run(ctx) -> None:
    quick = ctx.tier == "quick"
    lr = 4 if quick else 5
    ops = RULE_OPS if quick else RULE_OPS_FULL
    ctx.exhaustive("rule-histories", MOD, "exh_rule_hist", [(i, lr, not quick) for i in range(len(ops))],
                   f"all Rule call sequences of length 1..{lr} over {len(ops)} calls, each followed by assert_applies")
    cl = 5 if quick else 6
    ctx.exhaustive("rule-histories-core-vocabulary", MOD, "exh_rule_hist_core", [(i, cl) for i in range(len(CORE_OPS))],
                   f"all Rule call sequences of length exactly {cl} over the {len(CORE_OPS)}-call core vocabulary, each followed by assert_applies")
    ll = 6 if quick else 7
    m = len(L_OPS)
    ctx.exhaustive("layer-rule-histories", MOD, "exh_layer_hist", [((i, j), ll) for i in range(m) for j in range(m)],
                   f"all LayerRule call sequences of length 2..{ll} over {m} calls (cut at the first raising call), each followed by assert_applies")
    ctx.exhaustive("diagram-mutations-entry", MOD, "exh_misc", ["diagram", "mutations-rule", "mutations-layer", "entry"],
                   "all DiagramRule sequences up to length 4; every deletion/duplication/adjacent transposition of every canonical Rule and LayerRule chain; all 2^5 x 4 entry-point option combinations")
    ctx.random("absent-names", MOD, "names_strategy", "check_name", 8000 if quick else 500000)
