"""C16 - layer definitions are well-formed: one layer per module, unique layer names, one subject layer.
Specification automata (independent of the code) decide call by call accept / reject / no-claim."""
from __future__ import annotations

import re

from hypothesis import strategies as st

from pytestarch import LayeredArchitecture, LayerRule

from ..drive import make_evaluable

ID = "C16"
MOD = __name__

RULE_TEXT = (
    "All LayeredArchitecture call sequences up to length 7 (quick) / 9 (thorough) over {layer(L1|L2|L3), "
    "containing_modules('pkg.m1'|'pkg.m2'|['pkg.m1']|['pkg.m2']|['pkg.m1','pkg.m2']|[]), have_modules_with_names_matching(r), "
    "with_layer()}, explored depth-first and cut at the first rejected call; all LayerRule call sequences up to length 6 "
    "(quick) / 7 (thorough) over the 16-call vocabulary (the architecture has three layers with modules and a last layer L0 "
    "that never received any; L0 can be named as subject or object) cut at the first raising call; Hypothesis sequences of length "
    "<= 12 over 3 layer and 3 module names. Oracle: LayerBuilderModel / LayerRuleModel say per call accept, reject or "
    "no-claim; the implementation must raise a non-assertion error at exactly the first rejected call and must not raise at "
    "an accepted call; accepted definitions must expose exactly the supplied layers and modules in order through "
    "arch[layer] and str(arch). Non-trivial: the sequence repeats a module or layer name, opens a layer while one is "
    "pending, or gives a second / batched subject layer. Distinct = distinct call sequence."
)
ASSUMPTIONS = [
    "module names are multi-character strings, so set('pkg.m1') differs from {'pkg.m1'}",
    "a sequence is executed up to and including its first raising call; behaviour after a rejected call is not judged",
    "any exception that is not AssertionError counts as a configuration error",
]

M1, M2, M3 = "pkg.m1", "pkg.m2", "pkg.m3"
M0 = "pkg.m"  # a different module whose name is a substring of the others' names
M1X = "pkg.m1.x"  # a sub module of M1: another name, so it can be supplied next to M1 (round 8)
RX = r"pkg\.r.*"
ARCH_OPS = [("layer", "L1"), ("layer", "L2"), ("layer", "L3"), ("cm", M1), ("cm", M2), ("cm", [M1]), ("cm", [M2]), ("cm", [M1, M2]),
            ("rx", RX), ("with_layer",), ("cm", []), ("cm", M0), ("cm", [M2, M1]), ("cm", [M1, M1X]), ("cm", M1X)]


def _related(a: str, b: str) -> bool:
    ta, tb = a.split("."), b.split(".")
    n = min(len(ta), len(tb))
    return a != b and ta[:n] == tb[:n]


# ------------------------------------------------------------------- LayeredArchitecture


class LayerBuilderModel:
    def __init__(self):
        self.layers: dict = {}  # name -> list of identifiers, or None while pending
        self.pending = None

    def step(self, op) -> str:
        kind = op[0]
        if kind == "with_layer":
            return "accept"
        if kind == "layer":
            if self.pending is not None or op[1] in self.layers:
                return "reject"
            self.layers[op[1]] = None
            self.pending = op[1]
            return "accept"
        if self.pending is None:
            return "reject"
        if kind == "rx":
            self.layers[self.pending] = [op[1]]
            self.pending = None
            return "accept"
        mods = [op[1]] if isinstance(op[1], str) else list(op[1])
        if not mods:
            # an empty list supplies no modules: the call itself is not rejected, but the layer stays pending
            return "accept"
        assigned = {m for v in self.layers.values() if v for m in v}
        if any(m in assigned for m in mods):
            return "reject"
        self.layers[self.pending] = mods
        self.pending = None
        if len(set(mods)) != len(mods):
            # the same name twice in one list: still one layer for that module - the property neither forbids nor demands it
            return "noclaim"
        if any(_related(m, o) for m in mods for o in list(assigned) + mods):
            # a module supplied together with / after its own parent or sub module: the names differ, so nothing in the
            # property forbids it, but nothing demands that it be accepted either. No claim about the call itself; if it is
            # accepted, the definition must list exactly what was supplied and every supplied name counts as assigned.
            return "noclaim"
        return "accept"


def apply_arch(arch, op):
    if op[0] == "layer":
        return arch.layer(op[1])
    if op[0] == "cm":
        return arch.containing_modules(op[1] if isinstance(op[1], str) else list(op[1]))
    if op[0] == "rx":
        return arch.have_modules_with_names_matching(op[1])
    return arch.with_layer()


STR_LAYER = re.compile(r"Layer ([^:]+): \[([^\]]*)\]")


def run_arch_seq(seq) -> dict:
    """Execute the sequence on a fresh builder next to the model; returns result dict with 'stop' = index of first raise."""
    model = LayerBuilderModel()
    arch = LayeredArchitecture()
    viols = []
    stop = None
    interesting = False
    for i, op in enumerate(seq):
        before = ({k: (list(v) if v is not None else None) for k, v in model.layers.items()}, model.pending)
        want = model.step(op)
        try:
            apply_arch(arch, op)
            got, err = "accept", None
        except AssertionError as e:
            got, err = "assertion", repr(e)
        except Exception as e:  # noqa: BLE001
            got, err = "reject", f"{type(e).__name__}: {e}"
        if want == "reject":
            interesting = True
        if got == "assertion":
            viols.append({"sig": f"C16/arch/assertion-error/{op[0]}", "key": {"op": op[0]}, "detail": f"step {i} {op}: {err}"})
        elif want != got and want != "noclaim":
            form = "str" if (op[0] == "cm" and isinstance(op[1], str)) else ("list" if op[0] == "cm" else "-")
            viols.append({"sig": f"C16/arch/{op[0]}/{form}/model={want},impl={got}", "key": {"op": op[0], "form": form, "want": want},
                          "detail": f"sequence {seq}: step {i} {op}: model {want}, implementation {got} {err or ''}"})
        if want == "noclaim" and got != "accept":
            model.layers, model.pending = before  # the call was not accepted: nothing was supplied by it
        if got != "accept" or want == "reject":
            stop = i
            break
    if stop is None or (not viols):
        # compare what the accepted prefix exposes
        try:
            exposed = {}
            for name, mods in model.layers.items():
                exposed[name] = [m.identifier for m in arch[name]]
            want_map = {n: (v or []) for n, v in model.layers.items()}
            if exposed != want_map:
                viols.append({"sig": "C16/arch/exposed-modules", "key": {}, "detail": f"{seq}: arch[...]={exposed} want={want_map}"})
            listed = [(n, [x for x in mods.split(", ") if x]) for n, mods in STR_LAYER.findall(str(arch))]
            if listed != [(n, v or []) for n, v in model.layers.items()]:
                viols.append({"sig": "C16/arch/str-listing", "key": {}, "detail": f"{seq}: str={str(arch)!r} want={model.layers}"})
            internal = getattr(arch, "_modules_by_layer_name", None)  # not public API: only looked at if it is there
            if isinstance(internal, dict) and set(internal) != set(model.layers):
                viols.append({"sig": "C16/arch/extra-layers", "key": {}, "detail": f"{seq}: {list(internal)}"})
        except Exception as e:  # noqa: BLE001
            viols.append({"sig": "C16/arch/exposure-error", "key": {}, "detail": f"{seq}: {type(e).__name__}: {e}"})
    return {"violations": viols, "nontrivial": interesting, "stop": stop,
            "labels": ["arch", "rejecting" if interesting else "accepted", f"len={len(seq)}"]}


# ------------------------------------------------------------------- LayerRule

RULE_OPS = [("based_on",), ("layers_that",), ("are_named", "L1"), ("are_named", "L2"), ("are_named", ["L1", "L2"]), ("are_named", "L0"),
            ("should",), ("should_only",), ("should_not",),
            ("access_layers_that",), ("be_accessed_by_layers_that",), ("access_layers_except_layers_that",),
            ("be_accessed_by_layers_except_layers_that",), ("access_any_layer",), ("be_accessed_by_any_layer",),
            ("assert_applies",)]
VERBS = {"should", "should_only", "should_not"}
ACCESS = {"access_layers_that", "be_accessed_by_layers_that", "access_layers_except_layers_that",
          "be_accessed_by_layers_except_layers_that"}
ANY = {"access_any_layer", "be_accessed_by_any_layer"}


class LayerRuleModel:
    """accept / reject / noclaim per call. 'accept' only along the documented canonical chain."""

    def __init__(self):
        self.arch = False
        self.started = False
        self.position = None  # None | 'subject' | 'object'
        self.subject = False
        self.canon = 0  # progress along: based_on, layers_that, are_named(str), VERB, ACCESS|ANY, are_named, assert
        self.on_canon = True

    def step(self, op) -> str:
        k = op[0]
        verdict = "noclaim"
        if k == "based_on":
            verdict = "reject" if self.arch else ("accept" if self.canon == 0 else "noclaim")
            if not self.arch:
                self.arch = True
        elif k == "layers_that":
            if not self.arch:
                verdict = "reject"
            else:
                verdict = "accept" if (self.on_canon and self.canon == 1) else "noclaim"
                self.started = True
                self.position = "subject"
                self.subject = False
        elif not self.started:
            verdict = "reject"  # every other call needs layers_that (and hence an architecture) first
        elif k == "are_named":
            if "L0" in (op[1] if isinstance(op[1], list) else [op[1]]) and not (self.position == "subject" and (isinstance(op[1], list) or self.subject)):
                # a layer that never received modules: an incomplete definition, rejected when it is named or at the latest
                # by assert_applies (C13 decides that it never yields a verdict); no claim about which call raises
                if self.position == "subject":
                    self.subject = True
                self.on_canon = False
                return "noclaim"
            if self.position == "subject":
                if isinstance(op[1], list) or self.subject:
                    verdict = "reject"
                else:
                    self.subject = True
                    verdict = "accept" if (self.on_canon and self.canon == 2) else "noclaim"
            else:
                verdict = "accept" if (self.on_canon and self.canon == 5) else "noclaim"
        elif k in VERBS:
            verdict = "accept" if (self.on_canon and self.canon == 3) else "noclaim"
        elif k in ACCESS:
            self.position = "object"
            verdict = "accept" if (self.on_canon and self.canon == 4) else "noclaim"
        elif k in ANY:
            self.position = "object"
            verdict = "noclaim"
        elif k == "assert_applies":
            verdict = "noclaim"  # verdict or configuration error: C13's business
        # canonical progress
        expected = [{"based_on"}, {"layers_that"}, {"are_named"}, VERBS, ACCESS, {"are_named"}]
        if self.on_canon and self.canon < len(expected) and k in expected[self.canon] and verdict != "reject":
            self.canon += 1
        else:
            self.on_canon = False
        return verdict


def _arch():
    # L0 is opened last and never receives modules (nothing rejects that: no further layer is opened)
    return (LayeredArchitecture().layer("L1").containing_modules([M1]).layer("L2").containing_modules([M2])
            .layer("L3").containing_modules([M3]).layer("L0"))


_EV = None


def _ev():
    global _EV
    if _EV is None:
        _EV = make_evaluable(["pkg", M1, M2, M3], [(M1, M2)])
    return _EV


def apply_rule(rule, op):
    k = op[0]
    if k == "based_on":
        return rule.based_on(_arch())
    if k == "are_named":
        return rule.are_named(op[1] if isinstance(op[1], str) else list(op[1]))
    if k == "assert_applies":
        return rule.assert_applies(_ev())
    return getattr(rule, k)()


def run_rule_seq(seq) -> dict:
    model = LayerRuleModel()
    rule = LayerRule()
    viols = []
    stop = None
    interesting = False
    for i, op in enumerate(seq):
        want = model.step(op)
        try:
            apply_rule(rule, op)
            got, err = "accept", None
        except AssertionError as e:
            got, err = ("accept" if op[0] == "assert_applies" else "assertion"), repr(e)
        except Exception as e:  # noqa: BLE001
            got, err = "reject", f"{type(e).__name__}: {e}"
        if want == "reject":
            interesting = True
        if got == "assertion":
            viols.append({"sig": f"C16/rule/assertion-error/{op[0]}", "key": {"op": op[0]}, "detail": f"{seq} step {i}: {err}"})
        elif want != "noclaim" and want != got:
            viols.append({"sig": f"C16/rule/{op[0]}/model={want},impl={got}", "key": {"op": op[0], "want": want},
                          "detail": f"sequence {seq}: step {i} {op}: model {want}, implementation {got} {err or ''}"})
        if got != "accept" or want == "reject":
            stop = i
            break
    return {"violations": viols, "nontrivial": interesting, "stop": stop,
            "labels": ["rule", "rejecting" if interesting else "no-reject", f"len={len(seq)}"]}


# ------------------------------------------------------------------- exploration


def check_case(spec: dict) -> dict:
    seq = [tuple(op) if not (len(op) > 1 and isinstance(op[1], list)) else (op[0], list(op[1])) for op in spec["seq"]]
    seq = [tuple(o) for o in seq]
    res = run_arch_seq(seq) if spec["kind"] == "arch" else run_rule_seq(seq)
    res.pop("stop", None)
    return res


def _dfs(kind, ops, prefix, max_len, stt, deadline, counter):
    runner = run_arch_seq if kind == "arch" else run_rule_seq
    for op in ops:
        seq = prefix + [op]
        counter[0] += 1
        if counter[0] % 256 == 0:
            import time
            if time.time() > deadline:
                stt.truncated = True
                return
        res = runner(seq)
        stop = res.pop("stop")
        stt.record({"kind": kind, "seq": [list(o) for o in seq]}, res, enumerated=True, sample=(counter[0] % 997 == 3))
        if stop is None and len(seq) < max_len:
            _dfs(kind, ops, seq, max_len, stt, deadline, counter)
            if stt.truncated:
                return


def exh_shard(arg, stt, deadline) -> None:
    kind, first, max_len = arg
    ops = ARCH_OPS if kind == "arch" else RULE_OPS
    runner = run_arch_seq if kind == "arch" else run_rule_seq
    seq = [ops[i] for i in first]
    # the shard's own prefix is recorded by the shard whose last index is 0 only for the 1-prefix; simply record it here
    res = runner(seq)
    stop = res.pop("stop")
    if stop is not None and stop < len(seq) - 1:
        return  # a proper prefix already stops: this sequence is never reached by the cut exploration
    stt.record({"kind": kind, "seq": [list(o) for o in seq]}, res, enumerated=True, sample=True)
    if stop is None and len(seq) < max_len:
        _dfs(kind, ops, seq, max_len, stt, deadline, [0])


@st.composite
def cases(draw):
    kind = draw(st.sampled_from(["arch", "arch", "rule"]))
    if kind == "arch":
        ops = [("layer", "L1"), ("layer", "L2"), ("layer", "L3"), ("cm", M1), ("cm", M2), ("cm", M3), ("cm", [M1]),
               ("cm", [M2, M3]), ("cm", [M1, M3]), ("cm", [M3]), ("rx", RX), ("rx", r"pkg\.q.*"), ("with_layer",), ("cm", []), ("cm", M0), ("cm", [M0, M2]), ("cm", [M3, M1]), ("cm", [M2, M0, M1]),
               ("cm", [M1, M1X]), ("cm", [M1X, M3, M1]), ("cm", M1X), ("cm", ["pkg", M2]), ("cm", [M1X]), ("cm", [M2, M2]), ("cm", [M3, M1, M3])]
        seq = draw(st.lists(st.sampled_from(ops), min_size=3, max_size=12))
    else:
        seq = [("based_on",), ("layers_that",)] if draw(st.booleans()) else []
        seq = seq + draw(st.lists(st.sampled_from(RULE_OPS), min_size=2, max_size=10))
    return {"kind": kind, "seq": [list(o) for o in seq]}


def strategy(tier):
    return cases()


def run(ctx) -> None:
    la = 7 if ctx.tier == "quick" else 9
    lr = 6 if ctx.tier == "quick" else 7
    n = len(ARCH_OPS)
    ctx.exhaustive("arch-sequences", MOD, "exh_shard",
                   [("arch", (i,), la) for i in range(n)][:0] + [("arch", (i, j), la) for i in range(n) for j in range(n)],
                   f"all LayeredArchitecture call sequences of length 2..{la} over {n} calls, cut at the first rejected call")
    m = len(RULE_OPS)
    ctx.exhaustive("layer-rule-sequences", MOD, "exh_shard",
                   [("rule", (i, j), lr) for i in range(m) for j in range(m)],
                   f"all LayerRule call sequences of length 2..{lr} over {m} calls, cut at the first raising call")
    ctx.random("random-longer-sequences", MOD, "strategy", "check_case", 8000 if ctx.tier == "quick" else 600000)
