"""C08 - exclusions remove exactly the matching files/directories, nothing else."""
from __future__ import annotations

import re
from itertools import product

from hypothesis import strategies as st

from pytestarch.utils.partial_match_to_regex_converter import convert_partial_match_to_regex

from .. import models as M
from .. import projspace as PS
from ..drive import Project, scan_outcome

ID = "C08"
MOD = __name__

RULE_TEXT = (
    "Converter, exhaustive: every glob pattern over the alphabet {a,*,.,+} (thorough: {a,b,*,.,+,(}) up to length 6 (5) x "
    "every subject string over the same alphabet up to length 5: re.match(convert(p), s) must equal the documented glob "
    "semantics (models.glob_matches: literal text in full, leading * = any prefix, trailing * = any suffix). Tree level: "
    "Hypothesis trees whose entry names include regex metacharacters (a+b.py, x(1), a.b-free), exclusion tuples of 1-3 "
    "patterns built from the tree's own names and absolute paths in the four glob shapes, and the equivalent "
    "regex_exclusions (escaped by the harness, exclusions=()); oracle = unfiltered scan restricted to entries none of "
    "whose path elements below module_path is excluded (an excluded directory prunes its subtree), imports among "
    "survivors unchanged, glob run == regex run; plus tuples of free-form regex_exclusions (un-anchored prefixes, capturing "
    "groups, back-references, alternations) judged pattern by pattern with re.match. Non-trivial (tree level): the tuple excludes >= 1 and < all modules."
)
ASSUMPTIONS = [
    "patterns are matched against str(path) of the absolute, resolved path (as the scanner passes it)",
    "the alphabet has no newline (regex $ also matches before a trailing newline)",
]


# ------------------------------------------------------------------------------ converter


def strings(alphabet, max_len):
    for n in range(0, max_len + 1):
        for t in product(alphabet, repeat=n):
            yield "".join(t)


def conv_shard(arg, stt, deadline) -> None:
    alphabet, plen, slen, shard, nshards = arg
    subjects = list(strings(alphabet, slen))
    for i, p in enumerate(strings(alphabet, plen)):
        if i % nshards != shard:
            continue
        if i % 64 == 0:
            import time
            if time.time() > deadline:
                stt.truncated = True
                return
        try:
            rx = re.compile(convert_partial_match_to_regex(p))
        except re.error as e:
            stt.record({"type": "conv", "pattern": p, "subject": ""},
                       {"violations": [{"sig": "C08/converter/invalid-regex", "key": {}, "detail": f"{p!r}: {e}"}], "nontrivial": True, "labels": ["conv"]},
                       enumerated=True)
            continue
        bad = None
        n_match = 0
        for s in subjects:
            got = rx.match(s) is not None
            want = M.glob_matches(p, s)
            n_match += want
            if got != want and bad is None:
                bad = (s, got, want)
        stt.evaluations += len(subjects) - 1
        meta = any(c in p.strip("*") for c in ".+(*")
        res = {"violations": [], "nontrivial": meta and n_match > 0, "labels": ["conv", "metachar" if meta else "plain"]}
        if bad:
            shape = ("*" if p.startswith("*") else "") + "text" + ("*" if p.endswith("*") else "")
            res["violations"].append({"sig": f"C08/converter/{shape}", "key": {"shape": shape},
                                      "detail": f"pattern {p!r} vs {bad[0]!r}: regex says {bad[1]}, glob semantics say {bad[2]}"})
        stt.record({"type": "conv", "pattern": p, "subject": bad[0] if bad else subjects[len(subjects) // 2]}, res,
                   enumerated=True, sample=(i % 401 == 7))


CONV_ALPHABET = "ab/._-+*?()[]{}^$|\\ 0"


@st.composite
def conv_cases(draw):
    """Longer patterns and subjects over every regex metacharacter; the subject is mostly built around the pattern's core
    so that matches are frequent."""
    core = draw(st.text(alphabet=CONV_ALPHABET, min_size=1, max_size=8))
    p = draw(st.sampled_from(["", "*"])) + core + draw(st.sampled_from(["", "*"]))
    how = draw(st.integers(0, 4))
    pre = draw(st.text(alphabet=CONV_ALPHABET, max_size=4))
    post = draw(st.text(alphabet=CONV_ALPHABET, max_size=4))
    s = {0: core, 1: pre + core, 2: core + post, 3: pre + core + post}.get(how, draw(st.text(alphabet=CONV_ALPHABET, max_size=10)))
    return {"type": "conv", "pattern": p, "subject": s}


def conv_strategy(tier):
    return conv_cases()


def check_conv(spec) -> dict:
    p, s = spec["pattern"], spec["subject"]
    try:
        got = re.match(convert_partial_match_to_regex(p), s) is not None
    except re.error as e:
        return {"violations": [{"sig": "C08/converter/invalid-regex", "key": {}, "detail": f"{p!r}: {e}"}], "nontrivial": True, "labels": ["conv"]}
    want = M.glob_matches(p, s)
    viols = []
    if got != want:
        viols.append({"sig": "C08/converter/random-strings", "key": {}, "detail": f"{p!r} vs {s!r}: regex {got}, glob {want}"})
    return {"violations": viols, "nontrivial": want, "labels": ["conv", "match" if want else "no-match"]}


# ------------------------------------------------------------------------------ tree level

WEIRD = ["a", "ab", "a_b", "aa", "b", "a+b", "x(1)", "m", "tests", "test_a"]


def harness_regex(glob: str) -> str:
    lead, trail = glob.startswith("*"), glob.endswith("*") and len(glob) > 0
    core = glob[(1 if lead else 0): (len(glob) - 1 if trail and len(glob) > (1 if lead else 0) else len(glob))]
    if glob == "*":
        return ".*"
    return (".*" if lead else "") + re.escape(core) + (".*" if trail else "$")


def entries(spec) -> list:
    """[(rel path, is_dir)] for every directory and file of the tree, module_path-relative chain computed by caller."""
    out = [(d, True) for d in spec["dirs"]] + [(f, False) for f in spec["pyfiles"]] + [(f, False) for f in spec.get("otherfiles", [])]
    return out


def survivors(spec, base: str, matches) -> set:
    """Dotted module names expected after exclusion. matches(abs_path_str) -> bool. base = absolute path of root dir."""
    root = spec["root"]
    if matches(base):
        return set()
    excluded_dirs = set()
    for d in sorted(spec["dirs"], key=lambda x: x.count("/")):
        parts = d.split("/")
        anc_excluded = any("/".join(parts[:i]) in excluded_dirs for i in range(1, len(parts)))
        if anc_excluded or matches(f"{base}/{d}"):
            excluded_dirs.add(d)
    mods = {root}
    for d in spec["dirs"]:
        if d not in excluded_dirs:
            mods.add(PS.dotted(root, d))
    for f in spec["pyfiles"]:
        parent = f.rsplit("/", 1)[0] if "/" in f else ""
        if parent and parent in excluded_dirs:
            continue
        if matches(f"{base}/{f}"):
            continue
        mods.add(PS.dotted(root, f))
    return mods


def _paths_of(root, module, spec):
    """relative file-system paths a module name can stand for (directory or .py file)."""
    rel = module.split(".", 1)[1].replace(".", "/") if "." in module else ""
    return [rel, rel + ".py"] if rel else [""]


def check_case(spec: dict) -> dict:
    if spec.get("type") == "conv":
        return check_conv(spec)
    root = spec["root"]
    files = PS.render_files(spec)
    all_mods = PS.tree_modules(spec)
    all_imps = PS.expected_imports(spec)
    viols = []

    def v(sig, detail):
        viols.append({"sig": f"C08/{sig}", "key": {}, "detail": detail})

    with Project(root, files, spec["dirs"]) as pr:
        base = pr.path()
        globs = [g.replace("{BASE}", base) for g in spec["globs"]]
        regexes = [harness_regex(g) for g in globs]
        plain = scan_outcome(base, exclusions=(), regex_exclusions=())
        g_run = scan_outcome(base, exclusions=tuple(globs))
        r_run = scan_outcome(base, exclusions=(), regex_exclusions=tuple(regexes))
        # the same two requests the way the documentation writes them: no patterns as exclusions=() alone, regular
        # expressions as regex_exclusions=... alone
        plain_alone = scan_outcome(base, exclusions=())
        r_alone = scan_outcome(base, regex_exclusions=tuple(regexes))
        # the same patterns with a sub-directory as module_path (the shape of a loop over sub-packages with one shared
        # exclusion tuple): first a directory whose own path matches, then one that survives
        sub_runs = []
        hit = [d for d in spec["dirs"] if any(M.glob_matches(g, f"{base}/{d}") for g in globs)][:1]
        free = [d for d in spec["dirs"] if not any(M.glob_matches(g, f"{base}/{'/'.join(d.split('/')[:i])}") for g in globs
                                                   for i in range(1, d.count("/") + 2))
                and not any(M.glob_matches(g, base) for g in globs)][:1]
        # ... and a directory that lies below an excluded one without matching itself (everything below an excluded
        # directory contributes nothing, whether or not the scan starts there)
        below = [d for d in spec["dirs"] if d not in hit and not any(M.glob_matches(g, f"{base}/{d}") for g in globs)
                 and (any(M.glob_matches(g, f"{base}/{'/'.join(d.split('/')[:i])}") for g in globs for i in range(1, d.count("/") + 1))
                      or any(M.glob_matches(g, base) for g in globs))][:1]  # ... or below the excluded root directory itself
        for d in hit + free + below:
            sub_runs.append((d, d in hit or d in below, scan_outcome(base, f"{base}/{d}", exclusions=tuple(globs))))
        # the regular expressions one after the other, each given alone, against the scan with an empty tuple of them:
        # adding a pattern removes what it matches and nothing else (the tree may contain __pycache__ directories)
        r_none = scan_outcome(base, regex_exclusions=())
        r_each = [(r, scan_outcome(base, regex_exclusions=(r,))) for r in regexes[:2]]
        # one pattern given as a plain string, as the documentation's example does
        g_str = scan_outcome(base, exclusions=globs[0]) if len(globs) == 1 else None
        r_str = scan_outcome(base, regex_exclusions=regexes[0]) if len(regexes) == 1 else None
        # external libraries included: an import of an excluded internal module must not bring that module back
        x_run = scan_outcome(base, exclusions=tuple(globs), exclude_external_libraries=False)

    def glob_match(path):
        return any(M.glob_matches(g, path) for g in globs)

    # free-form regexes: applied as regular expressions anchored at the start of the path (re.match), one by one
    free = [r.replace("{BASE}", re.escape(base)) for r in spec.get("regexes", [])]
    if free:
        with Project(root, files, spec["dirs"]) as pr2:
            free2 = [r.replace(re.escape(base), re.escape(pr2.path())) for r in free]
            f_run = scan_outcome(pr2.path(), exclusions=(), regex_exclusions=tuple(free2))
            base2 = pr2.path()
        want_f = survivors(spec, base2, lambda path: any(re.match(r, path) is not None for r in free2))
        want_fi = {(u, w) for u, w in all_imps if u in want_f and w in want_f}
        if f_run[0] != "ok":
            if want_f:
                v("regex-free/scan-error", f"regexes {free2}: {f_run[1]}")
        else:
            gm, gi = set(f_run[1][0]), PS.drop_ancestor_imports(f_run[1][1])
            if gm != want_f:
                cls = "still-present" if gm - want_f else "wrongly-removed"
                v(f"regex-free/modules-{cls}", f"regex_exclusions {spec['regexes']}: modules {sorted(gm)} != expected {sorted(want_f)}")
            elif gi != want_fi:
                v("regex-free/imports", f"regex_exclusions {spec['regexes']}: imports {sorted(gi)} != {sorted(want_fi)}")

    want_mods = survivors(spec, base, glob_match)
    want_imps = {(u, w) for u, w in all_imps if u in want_mods and w in want_mods}
    if plain[0] != "ok":
        v("scan-error", plain[1])
    elif set(plain[1][0]) != all_mods or PS.drop_ancestor_imports(plain[1][1]) != all_imps:
        v("unfiltered-scan-unexpected", f"{sorted(plain[1][0])} vs {sorted(all_mods)}")
    if plain[0] == "ok" and (plain_alone[0] != "ok" or plain_alone[1] != plain[1]):
        v("no-patterns/exclusions-empty-tuple-alone", f"exclusions=() alone gives {plain_alone[1] if plain_alone[0] != 'ok' else 'another architecture'}, "
          "exclusions=(), regex_exclusions=() gives the unfiltered scan")
    if r_run[0] == "ok" and (r_alone[0] != "ok" or r_alone[1] != r_run[1]):
        v("regex/regex_exclusions-alone", f"regex_exclusions={regexes} alone gives {r_alone[1] if r_alone[0] != 'ok' else 'another architecture'}, "
          "together with exclusions=() it is applied")
    if r_none[0] == "ok":
        for r, run in r_each:
            keep = {m for m in r_none[1][0] if not any(re.match(r, f"{base}/{pth}") for pth in _paths_of(root, m, spec))}
            if run[0] != "ok":
                if keep:
                    v("regex/one-pattern-vs-empty-tuple/scan-error", f"regex_exclusions=({r!r},): {run[1]}")
            elif not set(run[1][0]) <= set(r_none[1][0]):
                v("regex/one-pattern-vs-empty-tuple/modules-added", f"regex_exclusions=({r!r},) has modules {sorted(set(run[1][0]) - set(r_none[1][0]))} "
                  f"that regex_exclusions=() does not have")
    for d, is_hit, run in sub_runs:
        sdot = PS.dotted(root, d)
        if is_hit:
            want_sub = set()
        else:
            want_sub = {m for m in want_mods if M.is_self_or_desc(m, sdot)} | set(M.ancestors(sdot))
        if run[0] != "ok":
            if want_sub:
                v("glob/sub-scan-error", f"module_path={sdot}, patterns {globs}: {run[1]}")
        elif set(run[1][0]) != want_sub:
            cls = "still-present" if set(run[1][0]) - want_sub else "wrongly-removed"
            v(f"glob/sub-scan/modules-{cls}", f"module_path={sdot} ({'its own path matches' if is_hit else 'not excluded'}), patterns {globs}: "
              f"modules {sorted(run[1][0])} != expected {sorted(want_sub)}")
    for name, got, want in (("exclusions", g_str, g_run), ("regex_exclusions", r_str, r_run)):
        if got is not None and want[0] == "ok" and (got[0] != "ok" or got[1] != want[1]):
            v(f"single-pattern-as-str/{name}", f"{name}=<the pattern as a plain str> gives {got[1] if got[0] != 'ok' else sorted(got[1][0])[:8]}, "
              f"the same pattern in a tuple gives {sorted(want[1][0])[:8]}")
    shapes = sorted({("*" if g.startswith("*") else "") + "text" + ("*" if g.endswith("*") else "") for g in spec["globs"]})
    for name, run in (("glob", g_run), ("regex", r_run)):
        if run[0] != "ok":
            if want_mods:
                v(f"{name}/scan-error", f"patterns {globs}: {run[1]}")
            continue
        got_mods, got_imps = set(run[1][0]), PS.drop_ancestor_imports(run[1][1])
        if got_mods != want_mods:
            cls = "still-present" if got_mods - want_mods else "wrongly-removed"
            v(f"{name}/modules-{cls}", f"patterns {globs}: modules {sorted(got_mods)} != expected {sorted(want_mods)}")
        elif got_imps != want_imps:
            v(f"{name}/imports", f"patterns {globs}: imports {sorted(got_imps)} != expected {sorted(want_imps)}")
    if x_run[0] != "ok":
        if want_mods:
            v("glob+externals-included/scan-error", f"patterns {globs}: {x_run[1]}")
    else:
        internal = {m for m in x_run[1][0] if m == root or m.startswith(root + ".")}
        if internal != want_mods:
            cls = "still-present" if internal - want_mods else "wrongly-removed"
            v(f"glob+externals-included/modules-{cls}", f"patterns {globs}, exclude_external_libraries=False: internal modules {sorted(internal)} != expected {sorted(want_mods)}")
        else:
            gi = {(a, b) for a, b in PS.drop_ancestor_imports(x_run[1][1]) if a in want_mods and b in want_mods}
            if gi != want_imps:
                v("glob+externals-included/imports", f"patterns {globs}, exclude_external_libraries=False: imports {sorted(gi)} != expected {sorted(want_imps)}")
    n_excl = len(all_mods) - len(want_mods)
    dir_hit = any(M.glob_matches(g, f"{base}/{d}") for g in globs for d in spec["dirs"])
    labels = [f"shapes={'+'.join(shapes)}", "dir-hit" if dir_hit else "file-hit-only", f"excluded={'none' if n_excl == 0 else ('all' if not want_mods else 'some')}"]
    return {"violations": viols, "nontrivial": 0 < n_excl < len(all_mods), "labels": labels}


@st.composite
def cases(draw):
    tree = draw(PS.project_trees(names=WEIRD + ["__pycache__"], max_depth=3))
    tree = draw(PS.with_imports(tree, extra_targets=["os.path", "json", "ab", "tests.helpers"]))
    ents = entries(tree)
    globs = []
    for _ in range(draw(st.integers(1, 3))):
        rel, is_dir = draw(st.sampled_from(ents))
        name = rel.rsplit("/", 1)[-1]
        stem = name[:-3] if name.endswith(".py") else name
        form = draw(st.sampled_from(["*name", "*/name", "abs", "abs*", "*name*", "*stem*", "name*", "*rel", "absprefix*", "*stem.py", "name"]))
        g = {
            "*name": "*" + name, "*/name": "*/" + name, "abs": "{BASE}/" + rel, "abs*": "{BASE}/" + rel + "*",
            "*name*": "*" + name + "*", "*stem*": "*/" + stem + "*", "name*": name + "*", "*rel": "*" + rel,
            "absprefix*": "{BASE}/" + rel[: max(1, len(rel) - 1)] + "*", "*stem.py": "*" + stem + ".py", "name": name,
        }[form]
        if draw(st.integers(0, 11)) == 0:
            # a pattern that matches the root directory itself (and nothing below it): the whole root is excluded, from
            # wherever the scan starts
            g = draw(st.sampled_from(["*/" + tree["root"], "{BASE}", "*" + tree["root"]]))
        globs.append(g)
    tree["globs"] = globs
    regexes = []
    for _ in range(draw(st.integers(0, 3))):
        rel, is_dir = draw(st.sampled_from(ents))
        name = rel.rsplit("/", 1)[-1]
        stem = name[:-3] if name.endswith(".py") else name
        form = draw(st.sampled_from(["prefix", "dir-prefix", "name-no-anchor", "group", "backref", "alt-group", "abs-prefix", "anchored"]))
        regexes.append({
            "prefix": ".*/" + re.escape(stem[: max(1, len(stem) - 1)]),
            "dir-prefix": ".*/" + re.escape(rel.split("/")[0]),
            "name-no-anchor": ".*" + re.escape(name),
            "group": ".*/(" + re.escape(stem) + r")(\.py)?$",
            "backref": r".*/(\w)\1[^/]*$",
            "alt-group": ".*/(" + re.escape(stem) + "|zz)" + r"\.py$",
            "abs-prefix": "{BASE}/" + re.escape(rel[: max(1, len(rel) - 2)]),
            "anchored": "{BASE}/" + re.escape(rel) + "$",
        }[form])
    tree["regexes"] = regexes
    return tree


def strategy(tier):
    return cases()


def run(ctx) -> None:
    nsh = 32
    if ctx.tier == "quick":
        alpha, plen, slen = "a*.+", 6, 5
    else:
        alpha, plen, slen = "ab*.+(", 5, 5
    ctx.exhaustive("glob-to-regex-converter", MOD, "conv_shard", [(alpha, plen, slen, i, nsh) for i in range(nsh)],
                   f"every pattern over '{alpha}' up to length {plen} x every subject over the same alphabet up to length {slen}")
    if ctx.tier != "quick":
        ctx.exhaustive("glob-to-regex-converter-small-alphabet", MOD, "conv_shard", [("a*.+", 6, 5, i, nsh) for i in range(nsh)],
                       "every pattern over 'a*.+' up to length 6 x every subject up to length 5")
    ctx.random("glob-to-regex-converter-random-strings", MOD, "conv_strategy", "check_conv", 20000 if ctx.tier == "quick" else 400000)
    ctx.random("trees-with-exclusions", MOD, "strategy", "check_case", 3000 if ctx.tier == "quick" else 150000)
    # coverage-guided arm over the same strategy and oracle (atheris; skipped when it is not installed)
    ctx.fuzz("coverage-guided-trees-with-exclusions", "strategy", "check_case", runs=300 if ctx.tier == "quick" else 10000, procs=4 if ctx.tier == "quick" else 12)
