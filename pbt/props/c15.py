"""C15 - evaluation is pure and independent of order, history and hash seed."""
from __future__ import annotations

import hashlib
import json
import os
import pathlib
import subprocess
import sys
import tempfile
import time
import traceback
from pathlib import Path

from hypothesis import HealthCheck, Phase, given, seed, settings
from hypothesis import strategies as st
from hypothesis.stateful import RuleBasedStateMachine, initialize, invariant, precondition, rule, run_state_machine_as_test

from pytestarch import DiagramRule

from .. import models as M
from .. import projspace as PS
from .. import rulespace as RS
from ..drive import (Project, build_layer_arch, build_layer_rule, build_rule, full_snapshot, make_evaluable, outcome, scan_outcome, write_puml)
from . import c05, c07

ID = "C15"
MOD = __name__

RULE_TEXT = (
    "(1) Hypothesis RuleBasedStateMachine, <= 40 steps: two shared evaluables over different module sets, a pool of "
    "Rule / LayerRule / DiagramRule objects (specs from C01/C05/C07's spaces incl. batches, related names, regexes and "
    "the 'anything' aliases); steps: evaluate a new rule, re-apply a pooled rule object to either evaluable, evaluate with "
    "permuted subject/object lists or permuted layer-definition order; after every step the full graph snapshot must be "
    "unchanged and (verdict, message) must equal that of a freshly built rule on a freshly built evaluable. "
    "(2) scans with Path.iterdir patched to a drawn permutation and permuted exclusion tuples: module and import sets "
    "must be equal. (3) 8 fresh interpreters (PYTHONHASHSEED=0..7) evaluate the same seeded batch of rule, layer-rule, "
    "diagram and scan cases; all outputs must be byte-identical. Non-trivial: a history that re-applies a rule object and "
    "contains both a failing and a passing evaluation / a scan with >= 2 directories / a batch case with >= 2 list members."
)
ASSUMPTIONS = [
    "messages of non-assertion errors are not compared (only the exception class)",
    "hash-seed independence is sampled at 8 seeds; directory order at drawn permutations of iterdir, not on real file systems",
]

TREE1 = ["q", "q.a", "q.a.x", "q.a.y", "q.ab", "q.ab.x", "q.b", "q.c", "q.c.k"]
TREE2 = ["q", "q.a", "q.a.x", "q.ab", "q.b", "q.b.z", "q.c"]
ALLN = sorted(set(TREE1) | set(TREE2))

LAYER_CONFIGS = [
    [("L1", ["q.a"]), ("L2", ["q.ab", "q.b"]), ("L3", ["q.c"])],
    [("L1", ["q.a.x", "q.ab"]), ("L2", ["q.b"])],
    [("L1", ["q.a"]), ("L2", ["q.b", "q.c"])],
    # a layer given by an expression that matches other modules in the second architecture than in the first (q.c.k there,
    # q.b.z here): whatever a rule object learnt about it on one architecture must not be used on the other (round 9)
    [("L1", ["q.a"]), ("L2", ["q.ab"]), ("U", ["q.c.k", "q.b.z"], r"q\.[bc]\.[kz]$")],
]


@st.composite
def rule_specs(draw):
    if draw(st.integers(0, 3)) == 0:
        kind = "regex"
        rx = draw(st.sampled_from([r"q\.a$", r"q\.a", r"q\.[bc]$", r".*\.x$", r"q\.ab$|q\.b$"]))
        side = {"kind": "regex", "names": [rx]}
        other = {"kind": draw(st.sampled_from(RS.KINDS)), "names": sorted(set(draw(st.lists(st.sampled_from(ALLN), min_size=1, max_size=2)))), "as_str": False}
        v, d, e = draw(st.sampled_from(RS.SHAPES))
        if draw(st.booleans()):
            return {"verb": v, "dir": d, "exc": e, "anything": False, "subj": side, "obj": other}
        return {"verb": v, "dir": d, "exc": e, "anything": False, "subj": other, "obj": side}
    ks, ko = draw(st.sampled_from(RS.KINDS)), draw(st.sampled_from(RS.KINDS))
    S = draw(st.lists(st.sampled_from(ALLN), min_size=1, max_size=3, unique=True))
    O = draw(st.lists(st.sampled_from(ALLN), min_size=1, max_size=3, unique=True))
    v, d, e = draw(st.sampled_from(RS.SHAPES))
    anything = draw(st.integers(0, 4)) == 0
    return {"verb": "should_not" if anything else v, "dir": d, "exc": False if anything else e, "anything": anything,
            "subj": {"kind": ks, "names": S, "as_str": False}, "obj": None if anything else {"kind": ko, "names": O, "as_str": False}}


@st.composite
def layer_specs(draw):
    cfg = draw(st.sampled_from(LAYER_CONFIGS))
    defs = []
    for entry in cfg:
        name, mods = entry[0], entry[1]
        if len(entry) == 3:
            defs.append({"name": name, "kind": "regex", "regex": entry[2], "modules": list(mods)})
        elif draw(st.integers(0, 2)) == 0:
            defs.append({"name": name, "kind": "regex", "regex": c05.layer_regex(mods), "modules": list(mods)})
        else:
            defs.append({"name": name, "kind": "names", "modules": list(mods), "as_str": False})
    names = [entry[0] for entry in cfg]
    subj = draw(st.sampled_from(names))
    others = [n for n in names if n != subj]
    v, d, e = draw(st.sampled_from(RS.SHAPES))
    if draw(st.integers(0, 6)) == 0:
        r = {"verb": "should_not", "dir": draw(st.sampled_from(["access", "accessed"])), "exc": False, "anything": True, "subj": subj, "obj": None}
    else:
        r = {"verb": v, "dir": "access" if d == "import" else "accessed", "exc": e, "anything": False, "subj": subj,
             "obj": draw(st.lists(st.sampled_from(others), min_size=1, max_size=2, unique=True)), "obj_as_str": False}
    return {"layers": defs, "rule": r}


@st.composite
def diagram_specs(draw):
    comps = draw(st.lists(st.sampled_from(["a", "ab", "b", "c"]), min_size=2, max_size=4, unique=True))
    pairs = [(x, y) for x in comps for y in comps if x != y]
    arrows = draw(st.lists(st.sampled_from(pairs), max_size=5, unique=True))
    return {"components": comps, "arrows": [list(a) for a in arrows], "should_only": draw(st.booleans()), "fq": draw(st.booleans())}


def render_puml(ds, order=None) -> str:
    base = "q"
    def nm(c):
        return f"{base}.{c}" if ds["fq"] else c
    lines = [f"[{nm(c)}]" for c in ds["components"]] + [f"[{nm(a)}] --> [{nm(b)}]" for a, b in ds["arrows"]]
    if order:
        lines = [lines[i] for i in order]
    return "@startuml\n" + "\n".join(lines) + "\n@enduml\n"


def permute_rule(rs, perm_seed):
    """Same rule with subject / object lists in another order (deterministic function of the drawn perm_seed)."""
    def sh(lst, salt):
        return sorted(lst, key=lambda n: hashlib.sha1(f"{perm_seed}/{salt}/{n}".encode()).hexdigest())
    r = json.loads(json.dumps(rs))
    r["subj"]["names"] = sh(r["subj"]["names"], "s")
    if r.get("obj"):
        r["obj"]["names"] = sh(r["obj"]["names"], "o")
    return r


def permute_layers(ls, perm_seed):
    def sh(lst, salt, key=lambda x: x):
        return sorted(lst, key=lambda n: hashlib.sha1(f"{perm_seed}/{salt}/{key(n)}".encode()).hexdigest())
    l2 = json.loads(json.dumps(ls))
    l2["layers"] = sh([dict(ld, modules=sh(ld["modules"], "m")) for ld in l2["layers"]], "l", key=lambda d: d["name"])
    for ld in l2["layers"]:
        if ld["kind"] == "regex":
            ld["regex"] = c05.layer_regex(ld["modules"])
    if l2["rule"].get("obj"):
        l2["rule"]["obj"] = sh(l2["rule"]["obj"], "o")
    return l2


def norm(o):
    """(kind, message): the outcome of assert_applies, whatever it is - also the text of a lookup error (which of several
    absent modules / unmatched expressions it names must not depend on listing order or hash seed either)."""
    return (o[0], o[1])


class Harness:
    """Shared by the machine instances of one worker process."""
    stats = None
    files: list = []


def make_applier(kind, spec):
    if kind == "rule":
        return build_rule(spec)
    if kind == "layer":
        return build_layer_rule(spec["layers"], spec["rule"])
    path = write_puml(render_puml(spec))
    Harness.files.append(path)
    r = DiagramRule(should_only_rule=spec["should_only"]).from_file(Path(path))
    return r.base_module_included_in_module_names() if spec["fq"] else r.with_base_module(spec.get("base", "q"))


class History:
    """Interpreter of a history given as data (so that a shrunk failing history is a replay file): two shared evaluables,
    a pool of rule objects, steps applied one after the other; after every step the graphs must be unchanged and the
    outcome must equal that of a freshly built rule on a freshly built evaluable."""

    def __init__(self, graphs):
        self.graphs = [(list(t), [tuple(e) for e in i]) for t, i in graphs]
        self.evs = [make_evaluable(t, i) for t, i in self.graphs]
        self.snaps = [full_snapshot(e) for e in self.evs]
        self.pool = []
        self.history = []
        self.bad = []

    def _fresh(self, kind, spec, which):
        t, i = self.graphs[which]
        return norm(outcome(lambda: make_applier(kind, spec).assert_applies(make_evaluable(t, i))))

    def _apply(self, applier, kind, spec, which, how):
        got = norm(outcome(lambda: applier.assert_applies(self.evs[which])))
        want = self._fresh(kind, spec, which)
        self.history.append((how, kind, got[0]))
        if got != want:
            self.bad.append({"sig": f"C15/history-dependent-outcome/{kind}/{how}", "key": {"kind": kind, "how": how},
                             "detail": f"{how} on evaluable {which}: {got} but a fresh rule on a fresh evaluable gives {want}; spec={spec}; history={self.history[-6:]}"})

    def step(self, st_: dict) -> None:
        op, which = st_["op"], st_.get("which", 0)
        if op == "new":
            kind, spec = st_["kind"], st_["spec"]
            try:
                ap = make_applier(kind, spec)
            except Exception:  # noqa: BLE001 - builder rejects: nothing to pool
                return
            self.pool.append([kind, spec, ap])
            self._apply(ap, kind, spec, which, "new")
        elif op == "both":  # a new rule object applied to one architecture and then to the other
            kind, spec = st_["kind"], st_["spec"]
            ap = make_applier(kind, spec)
            self.pool.append([kind, spec, ap])
            self._apply(ap, kind, spec, which, "new")
            self._apply(ap, kind, spec, 1 - which, "reapply")
        elif not self.pool:
            return
        elif op == "reapply":
            kind, spec, ap = self.pool[st_["idx"] % len(self.pool)]
            self._apply(ap, kind, spec, which, "reapply")
        elif op == "retarget":
            # a pooled DiagramRule object gets another base module (no other call) and is applied again
            entry = self.pool[st_["idx"] % len(self.pool)]
            kind, spec, ap = entry
            if kind != "diagram" or spec["fq"]:
                return
            spec2 = dict(spec, base=st_["base"])
            ap.with_base_module(st_["base"])
            entry[1] = spec2
            self._apply(ap, kind, spec2, which, "retarget")
        elif op == "permuted":
            kind, spec, _ = self.pool[st_["idx"] % len(self.pool)]
            if kind == "rule":
                spec2 = permute_rule(spec, st_["perm"])
            elif kind == "layer":
                spec2 = permute_layers(spec, st_["perm"])
            else:
                return
            try:
                ap = make_applier(kind, spec2)
            except Exception:  # noqa: BLE001
                return
            got = norm(outcome(lambda: ap.assert_applies(self.evs[which])))
            want = self._fresh(kind, spec, which)
            self.history.append(("permuted", kind, got[0]))
            if got != want:
                self.bad.append({"sig": f"C15/order-dependent-outcome/{kind}", "key": {"kind": kind},
                                 "detail": f"permuted lists give {got}, original order gives {want}; spec={spec} permuted={spec2}"})

    def check_graphs(self) -> None:
        for i, e in enumerate(self.evs):
            if full_snapshot(e) != self.snaps[i]:
                self.bad.append({"sig": "C15/evaluable-mutated", "key": {}, "detail": f"evaluable {i} changed after {self.history[-1:]}"})

    def cleanup(self) -> None:
        for p in Harness.files:
            try:
                os.unlink(p)
            except OSError:
                pass
        Harness.files.clear()


def check_history(spec: dict) -> dict:
    """Plain replay of a recorded history (no Hypothesis)."""
    h = History(spec["graphs"])
    try:
        for st_ in spec["steps"]:
            h.step(st_)
            h.check_graphs()
            if h.bad:
                break
    finally:
        h.cleanup()
    outs = {x[2] for x in h.history}
    re_ = any(x[0] in ("reapply", "retarget") for x in h.history)
    return {"violations": list(h.bad[:1]), "nontrivial": re_ and "fail" in outs and "pass" in outs,
            "labels": ["history", f"len={min(len(h.history) // 10 * 10, 40)}"] + (["reapplied"] if re_ else [])}


ALIAS_PAIRS = [("q", "q.a.y"), ("q.a", "q.a.y"), ("q.ab", "q.ab.x"), ("q.c", "q.c.k"), ("q", "q.b.z"), ("q.b", "q.b.z"), ("q", "q.c.k")]


class PurityMachine(RuleBasedStateMachine):
    """Generates histories; every step is recorded as data and executed by History, so the failing history replays."""

    def __init__(self):
        super().__init__()
        self.h = None
        self.steps = []

    @initialize(i1=RS.import_relation(TREE1, max_edges=10), i2=RS.import_relation(TREE2, max_edges=8))
    def setup(self, i1, i2):
        self.graphs = [[TREE1, [list(e) for e in i1]], [TREE2, [list(e) for e in i2]]]
        self.h = History(self.graphs)

    def _do(self, st_):
        self.steps.append(st_)
        self.h.step(st_)

    @rule(spec=rule_specs(), which=st.integers(0, 1))
    def new_rule(self, spec, which):
        self._do({"op": "new", "kind": "rule", "spec": spec, "which": which})

    @rule(spec=layer_specs(), which=st.integers(0, 1))
    def new_layer_rule(self, spec, which):
        self._do({"op": "new", "kind": "layer", "spec": spec, "which": which})

    @rule(spec=diagram_specs(), which=st.integers(0, 1))
    def new_diagram_rule(self, spec, which):
        self._do({"op": "new", "kind": "diagram", "spec": spec, "which": which})

    @rule(pair=st.sampled_from(ALIAS_PAIRS), extra=st.lists(st.sampled_from(ALLN), max_size=1), d=st.sampled_from(["import", "imported"]),
          kind=st.sampled_from(RS.KINDS), first=st.integers(0, 1))
    def alias_rule_on_both_architectures(self, pair, extra, d, kind, first):
        """'anything' alias over a module and a sub module that exists in only one of the two architectures, applied to both."""
        names = list(dict.fromkeys(list(pair) + extra))
        spec = {"verb": "should_not", "dir": d, "exc": False, "anything": True,
                "subj": {"kind": kind, "names": names, "as_str": False}, "obj": None}
        self._do({"op": "both", "kind": "rule", "spec": spec, "which": first})

    @rule(spec=st.one_of(rule_specs(), layer_specs().map(lambda s: ("layer", s)), diagram_specs().map(lambda s: ("diagram", s))), first=st.integers(0, 1))
    def new_rule_on_both_architectures(self, spec, first):
        kind, sp = spec if isinstance(spec, tuple) else ("rule", spec)
        self._do({"op": "both", "kind": kind, "spec": sp, "which": first})

    @precondition(lambda self: self.h is not None and len(self.h.pool) > 0)
    @rule(idx=st.integers(0, 10 ** 6), which=st.integers(0, 1))
    def reapply(self, idx, which):
        self._do({"op": "reapply", "idx": idx, "which": which})

    @precondition(lambda self: self.h is not None and any(k == "diagram" and not sp["fq"] for k, sp, _ in self.h.pool))
    @rule(idx=st.integers(0, 10 ** 6), which=st.integers(0, 1), base=st.sampled_from(["q", "q.a", "q.c", "zz"]))
    def retarget_diagram(self, idx, which, base):
        cands = [i for i, (k, sp, _) in enumerate(self.h.pool) if k == "diagram" and not sp["fq"]]
        self._do({"op": "retarget", "idx": cands[idx % len(cands)], "which": which, "base": base})

    @precondition(lambda self: self.h is not None and len(self.h.pool) > 0)
    @rule(idx=st.integers(0, 10 ** 6), which=st.integers(0, 1), perm=st.integers(0, 1000))
    def permuted(self, idx, which, perm):
        self._do({"op": "permuted", "idx": idx, "which": which, "perm": perm})

    @invariant()
    def graph_unchanged(self):
        if self.h is None:
            return
        self.h.check_graphs()
        if self.h.bad:
            raise AssertionError(self.h.bad[0]["sig"])

    def teardown(self):
        st_ = Harness.stats
        if st_ is not None and self.h is not None:
            h = self.h
            outs = {x[2] for x in h.history}
            re_ = any(x[0] in ("reapply", "retarget") for x in h.history)
            nontrivial = re_ and "fail" in outs and "pass" in outs
            spec = {"type": "history", "check": "check_history", "graphs": self.graphs, "steps": self.steps}
            st_.record(spec, {"violations": list(h.bad[:1]), "nontrivial": nontrivial,
                              "labels": ["history", f"len={min(len(h.history) // 10 * 10, 40)}"] + (["reapplied"] if re_ else [])
                              + (["retargeted-diagram"] if any(x[0] == "retarget" for x in h.history) else [])},
                       enumerated=False, sample=(len(self.steps) <= 6))
        if self.h is not None:
            self.h.cleanup()


def machine_shard(arg, stt, deadline) -> None:
    seed_value, n = arg
    Harness.stats = stt
    try:
        run_state_machine_as_test(
            seed(seed_value)(PurityMachine),
            settings=settings(max_examples=n, stateful_step_count=40, deadline=None, database=None, derandomize=False,
                              report_multiple_bugs=False, suppress_health_check=list(HealthCheck),
                              phases=[Phase.generate, Phase.shrink]),
        )
    except AssertionError:
        pass  # recorded through teardown (the shrunk history is the last one recorded for its signature)
    finally:
        Harness.stats = None


# ------------------------------------------------------------------------------ (2) directory order


def scan_with_order(pr, spec, perm_seed, sub_rel, exclusions):
    orig = pathlib.Path.iterdir

    def shuffled(self):
        items = list(orig(self))
        if perm_seed is None:
            return iter(sorted(items))
        return iter(sorted(items, key=lambda p: hashlib.sha1(f"{perm_seed}/{p.name}".encode()).hexdigest()))

    pathlib.Path.iterdir = shuffled
    try:
        return scan_outcome(pr.path(), pr.path(sub_rel) if sub_rel else pr.path(), exclusions=tuple(exclusions))
    finally:
        pathlib.Path.iterdir = orig


def check_order_case(spec: dict) -> dict:
    files = PS.render_files(spec)
    viols = []
    with Project(spec["root"], files, spec["dirs"]) as pr:
        excl = [g.replace("{BASE}", pr.path()) for g in spec.get("globs", [])]
        base = scan_with_order(pr, spec, None, spec.get("module_path", ""), excl)
        for ps in spec["perm_seeds"]:
            e2 = sorted(excl, key=lambda g: hashlib.sha1(f"{ps}/{g}".encode()).hexdigest())
            other = scan_with_order(pr, spec, ps, spec.get("module_path", ""), e2)
            if base[0] != other[0] or (base[0] == "ok" and base[1] != other[1]):
                viols.append({"sig": "C15/scan-depends-on-directory-or-exclusion-order", "key": {},
                              "detail": f"iterdir permutation {ps}: {other[:2] if other[0] != 'ok' else sorted(other[1][1])} vs sorted order {base[:2] if base[0] != 'ok' else sorted(base[1][1])}"})
        # regex exclusion tuples (groups, back-references): every listing order must give the same architecture
        import re as _re
        regs = [r.replace("{BASE}", _re.escape(pr.path())) for r in spec.get("regexes", [])]
        if len(regs) >= 2:
            first = scan_outcome(pr.path(), exclusions=(), regex_exclusions=tuple(regs))
            for ps in spec["perm_seeds"]:
                r2 = sorted(regs, key=lambda g: hashlib.sha1(f"{ps}/{g}".encode()).hexdigest())
                other = scan_outcome(pr.path(), exclusions=(), regex_exclusions=tuple(r2))
                if first[0] != other[0] or (first[0] == "ok" and first[1] != other[1]):
                    viols.append({"sig": "C15/scan-depends-on-regex-exclusion-order", "key": {},
                                  "detail": f"regex_exclusions {regs} vs {r2}: {first[:2] if first[0] != 'ok' else sorted(first[1][0])} vs {other[:2] if other[0] != 'ok' else sorted(other[1][0])}"})
    return {"violations": viols, "nontrivial": len(spec["dirs"]) >= 2,
            "labels": ["scan-order", f"globs={len(spec.get('globs', []))}", f"regexes={len(spec.get('regexes', []))}"]}


@st.composite
def order_cases(draw):
    from . import c08
    tree = draw(c08.cases()) if draw(st.booleans()) else dict(draw(PS.with_imports(draw(PS.project_trees(max_depth=4)))), globs=[])
    tree["module_path"] = draw(st.sampled_from([""] + tree["dirs"])) if draw(st.integers(0, 2)) == 0 else ""
    if tree["dirs"] and draw(st.integers(0, 3)) == 0:
        # a module file next to a package directory of the same name (both map to one module name): whatever the scan makes
        # of it, it must make the same of it in every enumeration order
        d = draw(st.sampled_from(tree["dirs"]))
        if all(c.isidentifier() for c in d.split("/")) and d + ".py" not in tree["pyfiles"]:
            tree["pyfiles"] = sorted(tree["pyfiles"] + [d + ".py"])
            mods = sorted(m for m in PS.tree_modules(tree) if all(p.isidentifier() for p in m.split(".")))
            tree["imports"] = tree["imports"] + [[d + ".py", draw(st.sampled_from(mods))] for _ in range(draw(st.integers(1, 2)))]
            tree["imports"] = [i for i in tree["imports"] if i[1] != PS.dotted(tree["root"], i[0])]
    tree["perm_seeds"] = draw(st.lists(st.integers(0, 10 ** 6), min_size=2, max_size=3, unique=True))
    tree["type"] = "order"
    return tree


def order_strategy(tier):
    return order_cases()


# ------------------------------------------------------------------------------ (3) hash seeds


@st.composite
def batch_cases(draw):
    t = draw(st.sampled_from(["rule", "rule", "layer", "layer", "diagram", "scan"]))
    if t == "rule":
        tree = draw(RS.trees(root="q", max_modules=10))
        ks, ko = draw(st.sampled_from(RS.KINDS)), draw(st.sampled_from(RS.KINDS))
        S = draw(st.lists(st.sampled_from(tree), min_size=1, max_size=3, unique=True))
        O = draw(st.lists(st.sampled_from(tree), min_size=1, max_size=3, unique=True))
        v, d, e = draw(st.sampled_from(RS.SHAPES))
        anything = draw(st.integers(0, 5)) == 0
        r = {"verb": "should_not" if anything else v, "dir": d, "exc": False if anything else e, "anything": anything,
             "subj": {"kind": ks, "names": S, "as_str": False}, "obj": None if anything else {"kind": ko, "names": O, "as_str": False}}
        if draw(st.integers(0, 4)) == 0:
            r["subj"] = {"kind": "regex", "names": [draw(st.sampled_from([r"q\.a", r".*\.x$", r"q\.[abc]$", r"q\.a.*|q\.b$"]))]}
        if draw(st.integers(0, 5)) == 0:
            # two or three names that do not exist / expressions that match nothing, listed together with existing ones: the
            # outcome is a lookup error whose text must not depend on listing order or hash seed
            side = draw(st.sampled_from(["subj", "obj"])) if not anything else "subj"
            if draw(st.booleans()):
                absent = draw(st.permutations(["q.zz1", "q.zz2", "q.a.zz", "q.nope"]))[: draw(st.integers(2, 3))]
                r[side] = {"kind": draw(st.sampled_from(RS.KINDS)), "names": list(draw(st.permutations(list(absent) + (S if side == "subj" else O)[:1]))), "as_str": False}
            else:
                dead = draw(st.permutations([r"q\.zz1$", r"q\.zz2$", r"nope\..*", r"q\.a\.zz$"]))[: draw(st.integers(2, 3))]
                r[side] = {"kind": "regex-batch", "names": list(draw(st.permutations(list(dead) + [r"q$"])))}
        imports = draw(RS.import_relation(tree, focus=set(S) | set(O), max_edges=12))
        nested = [(x, y) for x in tree for y in tree if M.is_strict_desc(y, x) and x != "q" and any(M.is_strict_desc(z, y) for z in tree)]
        if nested and not anything and draw(st.integers(0, 2)) == 0:
            # objects given as 'sub modules of' a package and of a package nested in it, listed in a drawn order; some subject
            # imports the nested package itself
            x, y = draw(st.sampled_from(nested))
            r["obj"] = {"kind": "sub", "names": list(draw(st.permutations([x, y]))), "as_str": False}
            outside = [m for m in tree if not M.related(m, x)] or [tree[0]]
            r["subj"] = {"kind": "named", "names": [draw(st.sampled_from(outside))], "as_str": False}
            imports = sorted(set(imports) | {(r["subj"]["names"][0], y)}) if not M.related(r["subj"]["names"][0], y) else imports
        return {"type": "rule", "tree": tree, "imports": [list(x) for x in imports], "rule": r}
    if t == "layer":
        if draw(st.integers(0, 5)) == 0:
            # one layer lists a package, another one a package inside it: whatever the outcome is (an error today), it has to
            # be the same one under every hash seed
            tree = ["q", "q.a", "q.a.x", "q.a.x.k", "q.a.y", "q.b", "q.b.z", "q.c"]
            inner = draw(st.sampled_from(["q.a.x", "q.a.y"]))
            layers = [{"name": n, "kind": "names", "modules": m, "as_str": False}
                      for n, m in draw(st.permutations([("core", ["q.a"]), ("util", [inner]), ("app", ["q.b"])]))]
            imports = draw(st.lists(st.sampled_from([("q.a.x.k", "q.b.z"), ("q.b", "q.a.x.k"), ("q.a.y", "q.b"), ("q.b.z", "q.a.y"), ("q.a.x", "q.c"),
                                                     ("q.c", inner), ("q.a.x.k", "q.a.y"), ("q.b", "q.a")]), min_size=1, max_size=4, unique=True))
            v, d, e = draw(st.sampled_from(RS.SHAPES))
            names = [ld["name"] for ld in layers]
            rule = {"verb": v, "dir": "access" if d == "import" else "accessed", "exc": e, "anything": False, "subj": names[0],
                    "obj": names[1:2] if draw(st.booleans()) else names[1:], "obj_as_str": False}
            return {"type": "layer", "tree": tree, "imports": [list(x) for x in sorted(imports)], "layers": layers, "rule": rule}
        if draw(st.booleans()):
            return dict(draw(c05.cases()), type="layer")
        # a subject layer of several modules with imports inside the layer and out of it: whichever import a search meets
        # first (set iteration order, hence the hash seed) must not matter
        tree = ["q", "q.a", "q.a.x", "q.a.y", "q.b", "q.b.z", "q.c", "q.c.k", "q.d", "q.e"]
        layers = [{"name": "L1", "kind": draw(st.sampled_from(["names", "regex"])), "modules": ["q.a", "q.b"], "as_str": False},
                  {"name": "L2", "kind": "names", "modules": ["q.c"], "as_str": False},
                  {"name": "L3", "kind": "names", "modules": ["q.d"], "as_str": False}]
        for ld in layers:
            if ld["kind"] == "regex":
                ld["regex"] = c05.layer_regex(ld["modules"])
        inside = [("q.a.x", "q.b.z"), ("q.b", "q.a.y"), ("q.a.y", "q.a.x"), ("q.b.z", "q.a")]
        out = [("q.a.x", "q.c.k"), ("q.b.z", "q.d"), ("q.a.y", "q.e"), ("q.c", "q.a.x"), ("q.e", "q.b"), ("q.d", "q.b.z")]
        # one listed module always has an import that stays in the layer and (from another of its sub modules) one that leaves it
        both = draw(st.sampled_from([[("q.a.x", "q.b.z"), ("q.a.y", "q.e")], [("q.b", "q.a.y"), ("q.b.z", "q.d")], [("q.a.y", "q.a.x"), ("q.a.x", "q.c.k")]]))
        imports = sorted(set(both + draw(st.lists(st.sampled_from(inside), max_size=2, unique=True)) + draw(st.lists(st.sampled_from(out), max_size=2, unique=True))))
        v, d, e = draw(st.sampled_from(RS.SHAPES))
        rule = {"verb": v, "dir": "access" if d == "import" else "accessed", "exc": e, "anything": False, "subj": "L1",
                "obj": draw(st.sampled_from([["L2"], ["L3"], ["L2", "L3"]])), "obj_as_str": False}
        return {"type": "layer", "tree": tree, "imports": [list(x) for x in imports], "layers": layers, "rule": rule}
    if t == "diagram":
        if draw(st.booleans()):
            return dict(draw(c07.cases()), type="diagram")
        # many drawn arrows, few realised: several generated rules are violated at once and their blocks have to come out
        # in the same order whatever the hash seed
        names = draw(st.lists(st.sampled_from(["k1", "k2", "k3", "a", "ab", "b", "core", "util", "svc"]), min_size=3, max_size=7, unique=True))
        tree = sorted(M.closure({c07.BASE}) | {f"{c07.BASE}.{c}" for c in names})
        pairs = [(a, b) for a in names for b in names if a != b]
        arrows = draw(st.lists(st.sampled_from(pairs), min_size=len(names), max_size=min(len(pairs), 12), unique=True))
        imports = draw(st.lists(st.sampled_from([(f"{c07.BASE}.{a}", f"{c07.BASE}.{b}") for a, b in pairs]), max_size=3, unique=True))
        return {"type": "diagram", "tree": tree, "imports": [list(e) for e in imports], "components": names,
                "arrows": [list(a) for a in arrows], "should_only": draw(st.booleans())}
    tree = draw(PS.with_imports(draw(PS.project_trees(max_depth=3)), extra_targets=["os.path", "logging.handlers", "xml.etree.ElementTree"]))
    tree["type"] = "scan"
    tree["include_external"] = draw(st.booleans())
    return tree


def eval_batch_case(spec) -> list:
    t = spec["type"]
    if t == "layerdef":
        # building the architecture of a layer rule; the definition is inconsistent and the error it ends in (its text too)
        # has to be the same under every hash seed
        return list(norm(outcome(lambda: build_layer_arch(spec["layers"]))))
    if t == "rule":
        ev = make_evaluable(spec["tree"], [tuple(e) for e in spec["imports"]])
        return list(norm(outcome(lambda: build_rule(spec["rule"]).assert_applies(ev))))
    if t == "layer":
        ev = make_evaluable(spec["tree"], [tuple(e) for e in spec["imports"]])
        return list(norm(outcome(lambda: build_layer_rule(spec["layers"], spec["rule"]).assert_applies(ev))))
    if t == "diagram":
        ev = make_evaluable(spec["tree"], [tuple(e) for e in spec["imports"]])
        p = write_puml(c07.render(spec["components"], [tuple(a) for a in spec["arrows"]], False))
        try:
            r = DiagramRule(should_only_rule=spec["should_only"]).from_file(Path(p)).with_base_module(c07.BASE)
            return list(norm(outcome(lambda: r.assert_applies(ev))))
        finally:
            os.unlink(p)
    with Project(spec["root"], PS.render_files(spec), spec["dirs"]) as pr:
        res = scan_outcome(pr.path(), exclude_external_libraries=not spec.get("include_external"))
    if res[0] != "ok":
        return ["error", res[1].split(":")[0]]
    return ["ok", sorted(res[1][0]), sorted(map(list, res[1][1])), sorted(map(list, res[1][2]))]


def child_pythonpath(repo) -> str:
    here = Path(__file__).resolve().parents[2]
    return os.pathsep.join([str(Path(repo) / "src"), str(here), str(here / ".deps")])


def child_main(batch_file: str) -> None:
    specs = json.loads(Path(batch_file).read_text())
    for s in specs:
        sys.stdout.write(json.dumps(eval_batch_case(s), sort_keys=True) + "\n")


def nested_layer_cases() -> list:
    """A fixed family next to the drawn batch: one layer lists a package, another one a package inside it, the rule is about
    a third layer and the nested ones; modules below the inner package take part in imports. Whatever the outcome is (a
    LayerMismatch error today), it must be the same under every hash seed."""
    tree = ["q", "q.a", "q.a.x", "q.a.x.k", "q.a.y", "q.b", "q.b.z", "q.c"]
    out = []
    for inner, deep in (("q.a.x", "q.a.x.k"), ("q.a.y", "q.a.y")):
        for imports in ([[deep, "q.b.z"]], [["q.b", deep]], [[deep, "q.b.z"], ["q.b.z", deep], ["q.c", deep]]):
            for order in (("core", "util", "app"), ("util", "app", "core")):
                mods = {"core": ["q.a"], "util": [inner], "app": ["q.b"]}
                layers = [{"name": n, "kind": "names", "modules": mods[n], "as_str": False} for n in order]
                for subj, obj in (("app", ["core"]), ("app", ["util"]), ("core", ["app"]), ("util", ["app"])):
                    for v, d, e in (("should_not", "import", False), ("should", "imported", False), ("should_only", "import", True)):
                        rule = {"verb": v, "dir": "access" if d == "import" else "accessed", "exc": e, "anything": False,
                                "subj": subj, "obj": obj, "obj_as_str": False}
                        out.append({"type": "layer", "tree": tree, "imports": imports, "layers": layers, "rule": rule})
    return out


def duplicate_module_cases() -> list:
    """Layer definitions that list several modules a second time (round 8, found by two reviewers): the definition is
    rejected; the text of that error names the modules and must not depend on the hash seed."""
    first = ["proj.m", "proj.n", "proj.o", "proj.p", "proj.q"]
    out = []
    for k in (2, 3, 4, 5):
        for second in (list(reversed(first[:k])) + ["proj.x"], ["proj.y"] + first[:k]):
            out.append({"type": "layerdef", "layers": [{"name": "import", "kind": "names", "modules": first, "as_str": False},
                                                        {"name": "model", "kind": "names", "modules": second, "as_str": False}]})
    return out


def hash_seed_part(ctx, n_cases: int, seeds=range(8)) -> None:
    from ..runner import REPO, Stats, derive_seed

    t0 = time.time()
    stt = Stats(ID)
    specs = []

    @seed(derive_seed(ctx.seed, ID, "hashseed-batch"))
    @settings(max_examples=n_cases, database=None, deadline=None, suppress_health_check=list(HealthCheck), phases=[Phase.generate])
    @given(batch_cases())
    def collect(spec):
        specs.append(spec)

    collect()
    specs.extend(nested_layer_cases())
    specs.extend(duplicate_module_cases())
    fd, batch = tempfile.mkstemp(prefix="pbt_c15_", suffix=".json")
    os.close(fd)
    Path(batch).write_text(json.dumps(specs))
    outs = {}
    try:
        procs = {}
        for hs in seeds:
            env = dict(os.environ, PYTHONHASHSEED=str(hs), VERIF_REPO=str(REPO), PYTHONPATH=child_pythonpath(REPO))
            procs[hs] = subprocess.Popen([sys.executable, "-m", "pbt.props.c15", "--child", batch], stdout=subprocess.PIPE,
                                         stderr=subprocess.PIPE, env=env, text=True, cwd=str(Path(__file__).resolve().parents[2]))
        for hs, p in procs.items():
            so, se = p.communicate()
            if p.returncode != 0:
                stt.errors.append(f"hash-seed child {hs} failed: {se[-800:]}")
            outs[hs] = so.splitlines()
    finally:
        os.unlink(batch)
    if not stt.errors:
        ref = outs[list(seeds)[0]]
        for i, spec in enumerate(specs):
            variants = {hs: (outs[hs][i] if i < len(outs[hs]) else None) for hs in seeds}
            same = len(set(variants.values())) == 1
            viols = []
            if not same:
                diff = {hs: v[:300] for hs, v in variants.items() if v != ref[i]}
                viols.append({"sig": f"C15/hash-seed-dependent/{spec['type']}", "key": {"type": spec["type"]},
                              "detail": f"PYTHONHASHSEED=0 -> {ref[i][:300]}; differing: {diff}"})
            multi = spec["type"] not in ("rule",) or len(spec["rule"]["subj"]["names"]) + len((spec["rule"].get("obj") or {"names": []})["names"]) > 2
            stt.record(dict(spec, check="check_batch_case"), {"violations": viols, "nontrivial": multi, "labels": ["hash-seed", f"type={spec['type']}"]},
                       enumerated=False, sample=(i % 60 == 0))
        stt.evaluations += len(specs) * (len(list(seeds)) - 1)
    ctx.inline("hash-seeds", stt, t0, kind="differential", interpreters=len(list(seeds)), cases=len(specs))


def check_batch_case(spec) -> dict:
    """Replay of a hash-seed disagreement: evaluate under 4 seeds in sub-processes."""
    from ..runner import REPO

    fd, batch = tempfile.mkstemp(prefix="pbt_c15_", suffix=".json")
    os.close(fd)
    Path(batch).write_text(json.dumps([spec]))
    outs = set()
    try:
        for hs in range(8):
            env = dict(os.environ, PYTHONHASHSEED=str(hs), VERIF_REPO=str(REPO), PYTHONPATH=child_pythonpath(REPO))
            r = subprocess.run([sys.executable, "-m", "pbt.props.c15", "--child", batch], capture_output=True, text=True, env=env,
                               cwd=str(Path(__file__).resolve().parents[2]))
            outs.add(r.stdout)
    finally:
        os.unlink(batch)
    viols = []
    if len(outs) > 1:
        viols.append({"sig": f"C15/hash-seed-dependent/{spec['type']}", "key": {"type": spec["type"]}, "detail": f"{len(outs)} different outputs over 8 hash seeds"})
    return {"violations": viols, "nontrivial": True, "labels": ["hash-seed"]}


def check_case(spec: dict) -> dict:
    if spec.get("type") == "order":
        return check_order_case(spec)
    if spec.get("type") == "history":
        return check_history(spec)
    return check_batch_case(spec)


def run(ctx) -> None:
    from ..runner import derive_seed

    quick = ctx.tier == "quick"
    per = 40 if quick else 400
    ctx.exhaustive("stateful-histories", MOD, "machine_shard", [(derive_seed(ctx.seed, ID, "machine", i), per) for i in range(16)],
                   f"16 x {per} Hypothesis state-machine runs of up to 40 steps (seeded)", kind="hypothesis-stateful")
    ctx.random("directory-and-exclusion-order", MOD, "order_strategy", "check_order_case", 1000 if quick else 12000)
    hash_seed_part(ctx, 400 if quick else 3000)


if __name__ == "__main__":
    if len(sys.argv) >= 3 and sys.argv[1] == "--child":
        from ..runner import _bootstrap

        _bootstrap()
        child_main(sys.argv[2])
