"""C01 - module-rule verdicts equal the documented rule semantics (reference model: models.rule_analysis)."""
from __future__ import annotations

from .. import models as M
from .. import rulespace as RS
from ..drive import eval_rule, evaluable_for, make_evaluable, reuse_aware, warmup

ID = "C01"
MOD = __name__

RULE_TEXT = (
    "Exhaustive part: fixed trees (T4=r{a{x},b,c}; thorough adds imports of the root and T6=r{a{x,y},b{x},c}, "
    "T5=r{a{x{k}},b{y}} with bounded edge subsets) x EVERY import relation over the candidate edges (u!=v, u not an "
    "ancestor of v) x every rule with 1-2 pairwise-unrelated subjects and objects, both filter kinds, 12 shapes + 2 "
    "'anything' aliases; and, with imports of the root allowed, every rule with explicit objects in which some subject is the "
    "same module as, an ancestor of or a descendant of some object ('sub modules of X should not import X'; quick: 1x1 rules "
    "on relations with <= 3 edges and 2x2 batches with <= 2 edges, thorough: 1x1 with <= 6 edges, batches with <= 3, 1x1 on T5 with <= 3). Random part: Hypothesis trees (<=14 modules, depth<=4, prefix-colliding sibling names), <=16 "
    "imports biased to the rule's modules, batches up to 3x3, a fifth of the rules with related subjects and objects. Oracle: verdict of the set-comprehension model. A case is "
    "non-trivial when at least one import has an endpoint inside a subject's denotation; distinct = distinct "
    "(tree, imports, rule) (by construction in the exhaustive part, by hash in the random part)."
)
ASSUMPTIONS = [
    "rules whose subjects and objects are hierarchically related are judged by the same set semantics (denotations are sets "
    "of modules; an import from a subject module to an object module is an 'edge', 'something else' lies outside the subject and "
    "outside all objects); the 'anything' aliases are only generated with pairwise unrelated subjects",
    "'anything' alias with several subjects: verdict only required to lie between the per-subject and the batch reading",
    "direct graphs contain no import from a module to its own descendant (not representable / never produced by scans)",
]


def check_pair(tree, imports, rule, ev, impl_rule=None) -> dict:
    """rule: what the reference model judges; impl_rule (default: the same) is what the implementation is given."""
    an = M.rule_analysis(tree, imports, rule)
    kind, msg = eval_rule(impl_rule or rule, ev)
    shape = RS.shape_name(rule)
    viols = []
    multi_any = rule.get("anything") and len(rule["subj"]["names"]) > 1
    if kind == "error":
        viols.append({"sig": f"C01/error/{shape}", "key": {"shape": shape, "exc": msg.split(":")[0]},
                      "detail": f"well-formed rule raised {msg}"})
    elif multi_any:
        strict_ok, weak_ok = M.anything_readings(tree, imports, rule)
        if strict_ok and kind != "pass":
            viols.append({"sig": f"C01/verdict/{shape}/multi/impl=fail,model=pass", "key": {"shape": shape},
                          "detail": f"both readings pass, implementation fails: {msg}"})
        if not weak_ok and kind != "fail":
            viols.append({"sig": f"C01/verdict/{shape}/multi/impl=pass,model=fail", "key": {"shape": shape},
                          "detail": "both readings fail, implementation passes"})
    else:
        want = "pass" if an["ok"] else "fail"
        if kind != want:
            ks = rule["subj"]["kind"]
            ko = rule["obj"]["kind"] if rule.get("obj") else "-"
            viols.append({
                "sig": f"C01/verdict/{shape}/S={ks},O={ko}/impl={kind},model={want}",
                "key": {"shape": shape, "S": ks, "O": ko, "impl": kind},
                "detail": f"model: forbidden={sorted(an['forbidden'])} missing_edge={an['missing_edge']} "
                          f"missing_other={an['missing_other']}; implementation: {kind} {msg!r}",
            })
    touched = False
    sden = set()
    for n in rule["subj"]["names"]:
        sden |= M.den(tree, rule["subj"]["kind"], n)
    for u, v in imports:
        if u in sden or v in sden:
            touched = True
            break
    labels = [f"shape={shape}", f"S={rule['subj']['kind']}{len(rule['subj']['names'])}",
              "O=" + (f"{rule['obj']['kind']}{len(rule['obj']['names'])}" if rule.get("obj") else "-"),
              "oracle=" + ("pass" if an["ok"] else "fail")]
    return {"violations": viols, "nontrivial": touched, "labels": labels}


@reuse_aware
def check_case(spec: dict) -> dict:
    tree, imports, rule = spec["tree"], [tuple(e) for e in spec["imports"]], spec["rule"]
    ev = evaluable_for(spec)
    res = check_pair(tree, imports, spec.get("model_rule", rule), ev, rule)
    if "model_rule" in spec:
        res["labels"].append("regex-form-of-a-named-side")
    if spec.get("full_tree"):
        res["labels"].append("flattened-by-level-limit")
    return res


def exh_shard(arg, st, deadline) -> None:
    tkey, shard, nshards, max_edges, root_target, max_s, max_o = arg[:7]
    related = len(arg) > 7 and arg[7]
    grand = len(arg) > 8 and arg[8]  # imports from a module to a descendant two or more levels below it are candidates too
    tree = RS.TREES[tkey]
    cand = M.candidate_edges(tree, allow_root_target=root_target, root=tree[0], grand=grand)
    rules = RS.enum_related_rules(tree, max_s, max_o) if related else RS.enum_rules(tree, max_s, max_o, root=tree[0])
    i = 0
    for imports in RS.graphs_of(cand, shard, nshards, max_edges):
        if RS.timed_out(deadline, i, 8):
            st.truncated = True
            return
        i += 1
        ev = make_evaluable(tree, imports)
        # every 8th import relation: each rule object is applied to a second architecture first (re-use must not matter)
        warm = RS.T4_DECOY if (i % 8 == 3 and tkey == "T4") else None
        with warmup(warm):
            for rule in rules:
                spec = {"tree": tree, "imports": imports, "rule": rule}
                res = check_pair(tree, imports, rule, ev)
                if res["violations"]:
                    res["labels"] = res["labels"][:1] + ["oracle=disagree"]
                else:
                    res["labels"] = [res["labels"][0], res["labels"][3]]
                if warm:
                    spec["warm"] = warm
                    res["labels"].append("reused-rule-object")
                st.record(spec, res, enumerated=True, sample=(i % 97 == 5))


def strategy(tier):
    return RS.rule_cases(root="q", max_modules=14)


def plan(tier):
    """(name, tree, max_edges, root_target, max_s, max_o[, related subjects/objects])"""
    if tier == "quick":
        return [("T4-all-relations", "T4", None, False, 2, 2),
                ("T4-related-subject-object-pairs", "T4", 3, True, 1, 1, True),
                ("T4-related-subject-object-batches", "T4", 2, True, 2, 2, True),
                ("T5-imports-of-deeper-descendants-related", "T5", 2, True, 1, 1, True, True),
                ("T5-imports-of-deeper-descendants-unrelated", "T5", 2, True, 1, 1, False, True)]
    return [
        ("T4-related-subject-object-pairs", "T4", 6, True, 1, 1, True),
        ("T4-related-subject-object-batches", "T4", 3, True, 2, 2, True),
        ("T5-related-subject-object-pairs", "T5", 3, True, 1, 1, True),
        ("T4-all-relations-with-root-targets", "T4", None, True, 2, 2),
        ("T6-relations-up-to-3-edges", "T6", 3, False, 2, 2),
        ("T5-relations-up-to-3-edges", "T5", 3, False, 2, 2),
        ("T5-imports-of-deeper-descendants-related", "T5", 3, True, 1, 1, True, True),
        ("T5-imports-of-deeper-descendants-unrelated", "T5", 3, True, 2, 2, False, True),
    ]


def run_space(ctx, modname) -> None:
    for name, tkey, max_edges, root_target, max_s, max_o, *rest in plan(ctx.tier):
        rel = bool(rest and rest[0])
        grand = len(rest) > 1 and bool(rest[1])
        tree = RS.TREES[tkey]
        n = len(M.candidate_edges(tree, allow_root_target=root_target, root=tree[0], grand=grand))
        nsh = 64 if max_edges is None else 128
        shards = [(tkey, i, nsh, max_edges, root_target, max_s, max_o, rel, grand) for i in range(nsh)]
        total = RS.count_graphs(n, max_edges)
        scope = (f"{tkey}: all {total} import relations"
                 + (f" with <= {max_edges} edges" if max_edges is not None else "")
                 + f" over {n} candidate edges" + (" (imports from a module to a descendant two or more levels below it included)" if grand else "") + f" x all rules (<= {max_s} subjects, <= {max_o} objects"
                 + (", some subject being the same module as / an ancestor / a descendant of some object)" if rel else ", subjects unrelated to objects)"))
        ctx.exhaustive(name, modname, "exh_shard", shards, scope)
    ctx.random("random-trees", modname, "strategy", "check_case", 32000 if ctx.tier == "quick" else 400000)


def run(ctx) -> None:
    run_space(ctx, MOD)
