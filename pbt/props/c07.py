"""C07 - DiagramRule passes exactly when the imports conform to the diagram; failures aggregate all violated rules;
with_base_module(p) == writing every component as p.name."""
from __future__ import annotations

import os
from itertools import product
from pathlib import Path

from hypothesis import strategies as st

from pytestarch import DiagramRule

from .. import models as M
from .. import rulespace as RS
from ..drive import evaluable_for, make_evaluable, outcome, write_puml
from ..msgparse import parse_message

ID = "C07"
MOD = __name__

RULE_TEXT = (
    "Every case additionally re-targets one DiagramRule object (other file and base first, then the real ones, a bogus base "
    "in between) and requires the outcomes of a fresh object; and applies one configured object to the architecture with the "
    "complementary import relation first and then to the one under test, again requiring the fresh outcome. Random bases include single-component packages and components "
    "named like the base. Exhaustive part: 2 components + sub-module + bystander (quick) / 3 components + bystander (thorough) under a base "
    "package: every arrow relation x every import relation over those modules x both modes (should-only / should) x "
    "both naming options. Random part: Hypothesis, 2-6 pairwise-unrelated components, bystanders inside and outside the "
    "base package, sub-modules of components, imports biased to realise the drawn arrows. Oracle: the conformance "
    "formula of the property (models.diagram_conforms); on failure the parsed line set must equal the union of the "
    "reference reports of every violated per-component rule; both naming options must give the same verdict and lines. "
    "A sixth of the random diagrams have a component inside another one; there the oracle is the documented lowering: the "
    "verdict equals the conjunction of the per-component should(-only) / should-not rules built through the Rule API. "
    "Non-trivial: >= 1 arrow and >= 1 import between component modules. The .puml is rendered in one canonical style "
    "(C06 covers the syntactic variety)."
)
ASSUMPTIONS = [
    "components are pairwise unrelated modules that exist in the architecture",
    "expected failure lines are derived from models.rule_analysis for the documented rule generation (one should(-only) rule per component with arrows, one should-not rule per component over all non-targets)",
]

BASE = "r.c"


def render(components_short, arrows, fq: bool, base: str = None) -> str:
    base = base or BASE

    def nm(c):
        return f"{base}.{c}" if fq else c
    lines = [f"[{nm(c)}]" for c in components_short]
    lines += [f"[{nm(a)}] --> [{nm(b)}]" for a, b in arrows]
    return "@startuml\n" + "\n".join(lines) + "\n@enduml\n"


def expected_report(tree, imports, comps, arrows, should_only):
    """Union over the documented generated rules of the reference report lines."""
    pairs, missing = set(), {}
    for a in comps:
        targets = sorted(b for b in comps if (a, b) in arrows)
        if targets:
            r = {"verb": "should_only" if should_only else "should", "dir": "import", "exc": False, "anything": False,
                 "subj": {"kind": "named", "names": [a]}, "obj": {"kind": "named", "names": targets}}
            an = M.rule_analysis(tree, imports, r)
            pairs |= an["forbidden"]
            for s, objs in an["missing_edge"].items():
                missing.setdefault(s, set()).update(objs)
        non = sorted(b for b in comps if b != a and (a, b) not in arrows)
        if non:
            r = {"verb": "should_not", "dir": "import", "exc": False, "anything": False,
                 "subj": {"kind": "named", "names": [a]}, "obj": {"kind": "named", "names": non}}
            pairs |= M.rule_analysis(tree, imports, r)["forbidden"]
    return pairs, missing


def run_diagram(path, ev, fq, should_only, base=None):
    # should-only is the documented default mode: one of the two naming options relies on the default, the other says it
    rule = (DiagramRule() if (should_only and fq) else DiagramRule(should_only_rule=should_only)).from_file(Path(path))
    rule = rule.base_module_included_in_module_names() if fq else rule.with_base_module(base or BASE)
    return outcome(lambda: rule.assert_applies(ev))


def run_reconfigured(path, ev, should_only, base, decoy_path):
    """One DiagramRule object: first pointed at another file and base and applied, then re-targeted and applied again."""
    rule = DiagramRule(should_only_rule=should_only).from_file(Path(decoy_path)).with_base_module(base + "_other")
    outcome(lambda: rule.assert_applies(ev))
    rule = rule.from_file(Path(path)).with_base_module(base)
    first = outcome(lambda: rule.assert_applies(ev))
    rule.with_base_module("zz_no_such_base")
    bogus = outcome(lambda: rule.assert_applies(ev))
    rule.with_base_module(base)
    second = outcome(lambda: rule.assert_applies(ev))
    return first, second, bogus


def run_switched_to_qualified_names(fq_path, ev, should_only):
    """One DiagramRule object first configured with a base module, then switched to 'names are fully qualified'."""
    rule = DiagramRule(should_only_rule=should_only).from_file(Path(fq_path))
    rule.with_base_module("zz_other_base")
    rule = rule.base_module_included_in_module_names()
    return outcome(lambda: rule.assert_applies(ev))


def run_on_two_architectures(path, ev_first, ev, should_only, base):
    """One configured DiagramRule object applied to another architecture first, then (unchanged) to the one under test."""
    rule = DiagramRule(should_only_rule=should_only).from_file(Path(path)).with_base_module(base)
    outcome(lambda: rule.assert_applies(ev_first))
    return outcome(lambda: rule.assert_applies(ev))


def judge(tree, imports, comps_short, arrows_short, should_only, ev, paths, base=None, ev_alt=None) -> dict:
    base = base or BASE
    comps = [f"{base}.{c}" for c in comps_short]
    arrows = {(f"{base}.{a}", f"{base}.{b}") for a, b in arrows_short}
    ok = M.diagram_conforms(tree, imports, comps, arrows, should_only)
    mode = "should_only" if should_only else "should"
    viols = []
    results = {}
    for naming, fq in (("base", False), ("fq", True)):
        kind, msg = run_diagram(paths[fq], ev, fq, should_only, base)
        results[naming] = (kind, msg)
        if kind == "error":
            viols.append({"sig": f"C07/error/{naming}", "key": {"naming": naming}, "detail": f"{msg}"})
            continue
        want = "pass" if ok else "fail"
        if kind != want:
            viols.append({"sig": f"C07/verdict/{mode}/{naming}/impl={kind},model={want}", "key": {"mode": mode, "naming": naming, "impl": kind},
                          "detail": f"components={comps} arrows={sorted(arrows)} imports={sorted(imports)}: {kind} {msg!r}"})
        elif kind == "fail":
            want_pairs, want_missing = expected_report(tree, imports, comps, arrows, should_only)
            got_pairs, got_missing = set(), {}
            for ln in parse_message(msg):
                if ln["type"] == "pair":
                    got_pairs.add((ln["subj"], ln["obj"]))
                elif ln["type"] == "missing_edge":
                    got_missing.setdefault(ln["subj"], set()).update(o for o, _ in ln["objs"])
                else:
                    viols.append({"sig": f"C07/unexpected-line/{mode}", "key": {"mode": mode}, "detail": f"{ln}"})
            if got_pairs != want_pairs or got_missing != want_missing:
                cls = "lost" if (want_pairs - got_pairs or any(want_missing.get(k, set()) - got_missing.get(k, set()) for k in want_missing)) else "extra"
                viols.append({"sig": f"C07/aggregation-{cls}/{mode}/{naming}", "key": {"mode": mode, "naming": naming},
                              "detail": f"lines pairs={sorted(got_pairs)} missing={got_missing}; expected pairs={sorted(want_pairs)} missing={want_missing}; message={msg!r}"})
    if results["base"] != results["fq"] and not viols:
        viols.append({"sig": f"C07/naming-options-differ/{mode}", "key": {"mode": mode}, "detail": f"{results}"})
    if not viols and "decoy" in paths:
        first, second, bogus = run_reconfigured(paths[False], ev, should_only, base, paths["decoy"])
        fresh_bogus = run_diagram(paths[False], ev, False, should_only, "zz_no_such_base")
        if bogus[0] != fresh_bogus[0]:
            viols.append({"sig": "C07/reconfigured-rule-object-differs/ignores-new-base", "key": {"mode": mode},
                          "detail": f"object re-targeted to a base that does not exist gives {bogus}, a fresh one {fresh_bogus}"})
        for name, got in (("after-retargeting", first), ("after-second-retargeting", second)):
            if (got[0], got[1] if got[0] != "error" else None) != (results["base"][0], results["base"][1] if results["base"][0] != "error" else None):
                viols.append({"sig": f"C07/reconfigured-rule-object-differs/{name}", "key": {"mode": mode},
                              "detail": f"a re-targeted DiagramRule object gives {got}, a fresh one {results['base']}"})
    if not viols:
        got = run_switched_to_qualified_names(paths[True], ev, should_only)
        if (got[0], got[1] if got[0] != "error" else None) != (results["fq"][0], results["fq"][1] if results["fq"][0] != "error" else None):
            viols.append({"sig": "C07/reconfigured-rule-object-differs/base-module-then-qualified-names", "key": {"mode": mode},
                          "detail": f"with_base_module(x) followed by base_module_included_in_module_names() gives {got}, a fresh rule with "
                                    f"qualified names {results['fq']}"})
    if not viols and ev_alt is not None:
        got = run_on_two_architectures(paths[False], ev_alt, ev, should_only, base)
        if (got[0], got[1] if got[0] != "error" else None) != (results["base"][0], results["base"][1] if results["base"][0] != "error" else None):
            viols.append({"sig": "C07/rule-object-applied-to-second-architecture-differs", "key": {"mode": mode},
                          "detail": f"a DiagramRule object that was applied to another architecture before gives {got}, a fresh one {results['base']}"})
    cset = set()
    for c in comps:
        cset |= M.desc_star(tree, c)
    nontrivial = bool(arrows) and any(u in cset and v in cset for u, v in imports)
    n_viol_rules = 0
    if not ok:
        wp, wm = expected_report(tree, imports, comps, arrows, should_only)
        n_viol_rules = len({p[0] for p in wp} | set(wm))
    return {"violations": viols, "nontrivial": nontrivial,
            "labels": [f"mode={mode}", "oracle=" + ("pass" if ok else "fail"), f"violating-subject-modules={min(n_viol_rules, 3)}"]}


def check_nested(spec: dict) -> dict:
    """Diagrams in which one component lies inside another (the documentation treats an arrow between them as an import
    like any other). The conformance formula of the property speaks about unrelated components, so the oracle here is
    the documented lowering: the DiagramRule's verdict must be the conjunction of one 'should (only) import <targets>' rule
    per component with arrows and one 'should not import <all other components>' rule per component, each evaluated
    through the public Rule API on the same architecture."""
    from ..drive import build_rule

    tree, imports = spec["tree"], [tuple(e) for e in spec["imports"]]
    base = spec["base"]
    comps = [f"{base}.{c}" for c in spec["components"]]
    arrows = {(f"{base}.{a}", f"{base}.{b}") for a, b in spec["arrows"]}
    ev = evaluable_for(spec)
    verdicts, want_lines = [], set()

    def one(r):
        o = outcome(lambda: build_rule(r).assert_applies(ev))
        verdicts.append(o[0])
        if o[0] == "fail":
            want_lines.update(o[1].split("\n"))

    for a in comps:
        targets = sorted(b for b in comps if (a, b) in arrows)
        if targets:
            one({"verb": "should_only" if spec["should_only"] else "should", "dir": "import", "exc": False, "anything": False,
                 "subj": {"kind": "named", "names": [a]}, "obj": {"kind": "named", "names": targets, "as_str": False}})
        non = sorted(b for b in comps if b != a and (a, b) not in arrows)
        if non:
            one({"verb": "should_not", "dir": "import", "exc": False, "anything": False,
                 "subj": {"kind": "named", "names": [a]}, "obj": {"kind": "named", "names": non, "as_str": False}})
    want = "error" if "error" in verdicts else ("pass" if all(x == "pass" for x in verdicts) else "fail")
    path = write_puml(render(spec["components"], [tuple(a) for a in spec["arrows"]], False, base))
    try:
        got, got_msg = run_diagram(path, ev, False, spec["should_only"], base)
    finally:
        os.unlink(path)
    viols = []
    mode = "should_only" if spec["should_only"] else "should"
    if got == want == "fail" and set(got_msg.split("\n")) != want_lines:
        viols.append({"sig": f"C07/nested-components/aggregated-lines-differ/{mode}", "key": {"mode": mode},
                      "detail": f"components={comps} arrows={sorted(arrows)}: DiagramRule lists {sorted(set(got_msg.split(chr(10))))}, the violated "
                                f"per-component rules list {sorted(want_lines)}"})
    if got != want:
        viols.append({"sig": f"C07/nested-components/diagram-vs-generated-rules/{mode}/impl={got},rules={want}", "key": {"mode": mode},
                      "detail": f"components={comps} arrows={sorted(arrows)} imports={sorted(imports)}: DiagramRule {got}, conjunction of the "
                                f"documented per-component rules {want} ({verdicts})"})
    return {"violations": viols, "nontrivial": bool(arrows) and bool(imports), "labels": ["nested-components", f"mode={mode}", f"rules={want}"]}


def check_case(spec: dict) -> dict:
    if spec.get("nested"):
        return check_nested(spec)
    tree, imports = spec["tree"], [tuple(e) for e in spec["imports"]]
    comps, arrows = spec["components"], [tuple(a) for a in spec["arrows"]]
    ev = evaluable_for(spec)
    base = spec.get("base", BASE)
    paths = {False: write_puml(render(comps, arrows, False, base)), True: write_puml(render(comps, arrows, True, base)),
             "decoy": write_puml("@startuml\n[zq1] --> [zq2]\n@enduml\n")}
    alt = sorted(set(M.candidate_edges(tree)) - set(imports))[:40]
    try:
        return judge(tree, imports, comps, set(arrows), spec["should_only"], ev, paths, base, make_evaluable(tree, alt))
    finally:
        for p in paths.values():
            os.unlink(p)


# ------------------------------------------------------------------------------ exhaustive

SCOPES = {
    "2c": (["r", "r.c", "r.c.k1", "r.c.k1.s", "r.c.k2", "r.c.z"], ["k1", "k2"]),
    "3c": (["r", "r.c", "r.c.k1", "r.c.k2", "r.c.k3", "r.c.z"], ["k1", "k2", "k3"]),
}


def exh_shard(arg, stt, deadline) -> None:
    scope, shard, nshards, max_edges = arg
    tree, comps = SCOPES[scope]
    mods = [m for m in tree if m not in ("r", "r.c")]
    cand = [(u, v) for u in mods for v in mods if u != v and not M.is_strict_desc(v, u)]
    pairs = [(a, b) for a in comps for b in comps if a != b]
    relations = []
    for mask in range(2 ** len(pairs)):
        relations.append({pairs[i] for i in range(len(pairs)) if mask >> i & 1})
    files = []
    decoy = write_puml("@startuml\n[zq1] --> [zq2]\n@enduml\n")
    for rel in relations:
        files.append((rel, {False: write_puml(render(comps, sorted(rel), False)), True: write_puml(render(comps, sorted(rel), True)),
                            "decoy": decoy}))
    try:
        i = 0
        for imports in RS.graphs_of(cand, shard, nshards, max_edges):
            if RS.timed_out(deadline, i, 2):
                stt.truncated = True
                return
            i += 1
            ev = make_evaluable(tree, imports)
            ev_alt = make_evaluable(tree, sorted(set(cand) - set(imports)))  # the complementary import relation
            for rel, paths in files:
                for so in (True, False):
                    res = judge(tree, imports, comps, rel, so, ev, paths, None, ev_alt)
                    spec = {"tree": tree, "imports": imports, "components": comps, "arrows": sorted(rel), "should_only": so}
                    stt.record(spec, res, enumerated=True, sample=(i % 67 == 3 and len(rel) == 1 and so))
    finally:
        for _, paths in files:
            for k, p in paths.items():
                if k != "decoy":
                    os.unlink(p)
        os.unlink(decoy)


# ------------------------------------------------------------------------------ random


@st.composite
def cases(draw):
    n = draw(st.integers(2, 6))
    base = draw(st.sampled_from(["r.c", "r.c", "c", "app"]))
    last = base.rsplit(".", 1)[-1]
    names = draw(st.lists(st.sampled_from(["k1", "k2", "k3", "a", "ab", "a_b", "aa", "b", last, last + "x", "col\u00b7legi", "\u0939\u093f\u0902\u0926\u0940"]), min_size=n, max_size=n, unique=True))
    tree = M.closure({base}) | {f"{base}.{c}" for c in names}
    for c in names:
        for s in draw(st.lists(st.sampled_from(["s", "t", "a", last]), max_size=2, unique=True)):
            tree.add(f"{base}.{c}.{s}")
    for z in draw(st.lists(st.sampled_from([base + ".z", base + ".zz.y", "r.o", "r.o.p", base + "a", "other.mod"]), max_size=3, unique=True)):
        tree |= M.closure([z])
    tree = sorted(tree)
    pairs = [(a, b) for a in names for b in names if a != b]
    arrows = draw(st.lists(st.sampled_from(pairs), max_size=min(len(pairs), 8), unique=True))
    comp_mods = {f"{base}.{c}": sorted(M.desc_star(tree, f"{base}.{c}")) for c in names}
    imports = set()
    for a, b in arrows:
        r = draw(st.integers(0, 9))
        if r < 8:  # realise most arrows
            imports.add((draw(st.sampled_from(comp_mods[f"{base}.{a}"])), draw(st.sampled_from(comp_mods[f"{base}.{b}"]))))
    cand = M.candidate_edges(tree)
    for e in draw(st.lists(st.sampled_from(cand), max_size=4)):
        imports.add(e)
    imports = {e for e in imports if not M.is_strict_desc(e[1], e[0])}
    spec = {"tree": tree, "imports": sorted(list(e) for e in imports), "components": names, "arrows": [list(a) for a in arrows],
            "should_only": draw(st.booleans()), "base": base}
    if draw(st.integers(0, 4)) == 0:
        spec.update(draw(RS.preimage(tree, sorted(imports))))  # the same architecture as the flattening of a deeper one
    inner = [m for m in tree if any(M.is_strict_desc(m, f"{base}.{c}") for c in names)]
    if inner and draw(st.integers(0, 5)) == 0:
        # a further component that lies inside one of the others
        extra = draw(st.sampled_from(inner))[len(base) + 1:]
        spec["components"] = names + [extra]
        pairs2 = [(a, b) for a in spec["components"] for b in spec["components"] if a != b]
        spec["arrows"] = [list(a) for a in draw(st.lists(st.sampled_from(pairs2), max_size=6, unique=True))]
        spec["nested"] = True
        spec.pop("full_tree", None), spec.pop("full_imports", None), spec.pop("level_limit", None)
    return spec


def strategy(tier):
    return cases()


def run(ctx) -> None:
    nsh = 64
    if ctx.tier == "quick":
        ctx.exhaustive("2-components", MOD, "exh_shard", [("2c", i, nsh, None) for i in range(nsh)],
                       "2 components (one with a sub-module) + bystander: all 4 arrow relations x all 2^11 import relations x 2 modes x 2 naming options")
    else:
        ctx.exhaustive("2-components", MOD, "exh_shard", [("2c", i, nsh, None) for i in range(nsh)],
                       "2 components (one with a sub-module) + bystander: all 4 arrow relations x all 2^11 import relations x 2 modes x 2 naming options")
        ctx.exhaustive("3-components", MOD, "exh_shard", [("3c", i, 128, None) for i in range(128)],
                       "3 components + bystander: all 64 arrow relations x all 2^12 import relations x 2 modes x 2 naming options")
    ctx.random("random-diagrams", MOD, "strategy", "check_case", 4000 if ctx.tier == "quick" else 100000)
