"""C17 - plot labels: aliases replace the nearest aliased ancestor, every module labelled exactly once.
Observed at the (intercepted) call into the networkx drawing function."""
from __future__ import annotations

from itertools import product

from hypothesis import strategies as st

import pytestarch.eval_structure.networkxgraph as NXG

from .. import models as M
from .. import rulespace as RS
from ..drive import make_evaluable

ID = "C17"
MOD = __name__

RULE_TEXT = (
    "Exhaustive part: tree q{a{x{k}},ab,a_b{x},aa} and tree a{a{a},ab,b{a,ba}} (the root's name recurs further down) x every "
    "alias map over subsets of their modules x spacing present/absent, plus for every alias map a second and third "
    "visualize() call on the same architecture (same aliased modules with other texts; one alias fewer), each call judged "
    "on its own, and a map whose alias texts are module names themselves (a module's own full name - an identity alias -, its last "
    "component, the name of another module). Random part also draws root names from the sibling pool and 1-2 further calls on the same architecture. Random part: Hypothesis trees with prefix-colliding siblings (a few names "
    "contain '+', '(' as file-system derived module names can), alias maps over random subsets incl. nested aliased "
    "modules, alias values with dots and regex metacharacters, optional spacing, extra drawing kwargs, and aliases for "
    "non-existent modules. Oracle: models.label_expected (most specific aliased ancestor-or-self by dotted components); "
    "labels must have exactly one entry per module; unknown aliased module => KeyError naming it; other kwargs arrive "
    "unchanged; spacing is consumed and a pos for every node is passed. Non-trivial: >= 1 alias on a module that has a "
    "descendant or a sibling whose name it string-prefixes."
)
ASSUMPTIONS = [
    "networkx.draw_networkx is replaced by a recorder through the module-level name pytestarch.eval_structure.networkxgraph.draw_networkx (harness side, no repository hook)",
    "spring_layout is the real networkx function",
]


class Recorder:
    def __init__(self):
        self.calls = []

    def __call__(self, graph, **kwargs):
        self.calls.append((graph, kwargs))


def draw(ev, kwargs) -> tuple:
    rec = Recorder()
    old = NXG.draw_networkx
    NXG.draw_networkx = rec
    try:
        try:
            ev.visualize(**kwargs)
        except Exception as e:  # noqa: BLE001
            return ("error", type(e).__name__, str(e))
    finally:
        NXG.draw_networkx = old
    return ("ok", rec.calls)


def check_case(spec: dict) -> dict:
    """One evaluable, one or more visualize() calls on it (spec['more_calls']): every call is judged on its own, so a
    label map remembered from an earlier call shows up as a wrong label of a later one."""
    tree = spec["tree"]
    # with a level limit the architecture's modules are the truncated names; an alias for a module below the limit is
    # an alias for a module that does not exist
    # the module list is handed over in the spec's order (scans with external libraries pass it through a set, so a
    # module may well come before its parent)
    ev = make_evaluable(spec.get("node_order") or tree, [tuple(e) for e in spec.get("imports", [])], spec.get("level_limit"))
    calls = [spec] + list(spec.get("more_calls", []))
    viols, labels, nontrivial = [], [], False
    for i, call in enumerate(calls):
        r = check_call(ev, call)
        for v in r["violations"]:
            if i:
                v = dict(v, sig=v["sig"] + "/on-repeated-call", detail=f"call #{i + 1} on the same architecture: " + str(v["detail"]))
            viols.append(v)
        labels += r["labels"]
        nontrivial = nontrivial or r["nontrivial"]
    if spec.get("level_limit") is not None:
        labels.append("level-limited")
        if any(a in tree and a not in set(ev.modules) for c in calls for a in c["aliases"]):
            labels.append("alias-for-module-below-the-limit")
    if len(calls) > 1:
        labels.append("repeated-calls")
        if any(set(c["aliases"]) == set(calls[0]["aliases"]) and c["aliases"] != calls[0]["aliases"] for c in calls[1:]):
            labels.append("repeated-calls-same-keys-other-values")
    return {"violations": viols, "nontrivial": nontrivial, "labels": labels}


def check_call(ev, spec: dict) -> dict:
    aliases = dict(spec["aliases"])
    extra = dict(spec.get("extra", {}))
    mods = set(ev.modules)
    kwargs = dict(extra)
    kwargs["aliases"] = dict(aliases)
    if spec.get("spacing") is not None:
        kwargs["spacing"] = spec["spacing"]
    res = draw(ev, kwargs)
    unknown = [a for a in aliases if a not in mods]
    viols = []
    collide = any(
        any(m != a and (M.is_strict_desc(m, a) or (m.startswith(a) and not M.is_self_or_desc(m, a))) for m in mods)
        for a in aliases if a in mods)
    recur = any(any(m != a and M.is_strict_desc(m, a) and a in m[len(a):] for m in mods) for a in aliases if a in mods)
    labels = ["unknown-alias" if unknown else "all-known", "spacing" if spec.get("spacing") is not None else "no-spacing",
              "colliding" if collide else "plain"] + (["aliased-name-recurs-in-descendant"] if recur else [])
    if unknown:
        if res[0] != "error" or res[1] != "KeyError" or not any(u in res[2] for u in unknown):
            viols.append({"sig": "C17/unknown-alias-not-rejected", "key": {}, "detail": f"aliases for absent modules {unknown}: {res[:3] if res[0] == 'error' else 'drawn'}"})
        return {"violations": viols, "nontrivial": True, "labels": labels}
    if res[0] != "ok":
        viols.append({"sig": f"C17/error/{res[1]}", "key": {"exc": res[1]}, "detail": f"{res}"})
        return {"violations": viols, "nontrivial": collide, "labels": labels}
    calls = res[1]
    if len(calls) != 1:
        viols.append({"sig": "C17/backend-calls", "key": {}, "detail": f"{len(calls)} calls"})
        return {"violations": viols, "nontrivial": collide, "labels": labels}
    graph, got = calls[0]
    want_labels = M.label_expected(mods, aliases)
    gl = got.get("labels")
    if gl != want_labels:
        diff = {m: (gl.get(m) if isinstance(gl, dict) else None, want_labels[m]) for m in want_labels
                if not isinstance(gl, dict) or gl.get(m) != want_labels[m]}
        extra_keys = sorted(set(gl) - set(want_labels)) if isinstance(gl, dict) else []
        cls = "missing-or-extra-entries" if (not isinstance(gl, dict) or set(gl) != set(want_labels)) else "wrong-label"
        viols.append({"sig": f"C17/{cls}", "key": {}, "detail": f"aliases={aliases}: (got, want) per module {diff} extra={extra_keys}"})
    for k, v in extra.items():
        if k not in got or got[k] != v:
            viols.append({"sig": "C17/kwarg-not-passed-through", "key": {"kw": k}, "detail": f"{k}={v!r} arrived as {got.get(k)!r}"})
    unexpected = set(got) - set(extra) - {"labels", "pos"}
    if unexpected:
        viols.append({"sig": "C17/unexpected-kwargs", "key": {}, "detail": f"{sorted(unexpected)}"})
    if spec.get("spacing") is not None:
        pos = got.get("pos")
        if "spacing" in got or not isinstance(pos, dict) or set(pos) != mods:
            viols.append({"sig": "C17/spacing-handling", "key": {}, "detail": f"spacing in kwargs={'spacing' in got}; pos keys={sorted(pos) if isinstance(pos, dict) else pos}"})
    elif "pos" in got and "pos" not in extra:
        viols.append({"sig": "C17/pos-without-spacing", "key": {}, "detail": "pos passed although no spacing given"})
    if set(graph.nodes) != mods:
        viols.append({"sig": "C17/graph-arg", "key": {}, "detail": "first argument is not the architecture's graph"})
    return {"violations": viols, "nontrivial": collide, "labels": labels}


EX_TREE = ["q", "q.a", "q.a.x", "q.a.x.k", "q.ab", "q.a_b", "q.a_b.x", "q.aa", "q.b"]
# the root's name recurs as a component and as a substring of components further down
EX_TREE2 = ["a", "a.a", "a.a.a", "a.ab", "a.b", "a.b.a", "a.b.ba"]
ALIAS_VALUES = ["A", "B.c", "x+y", "(z)", "$1", "al", "W", "v.w.", "[k]"]
# texts that mean something to re.sub / str.format / % when used as a template instead of being copied
TEMPLATE_LIKE = [r"$\alpha$", "shop\\utils", r"s\1", r"\g<0>", "tail\\", "{0}", "%s", "{name}"]


def exh_shard(arg, stt, deadline) -> None:
    shard, nshards = arg
    for tree in (EX_TREE, EX_TREE2):
        n = len(tree)
        for mask in range(2 ** n):
            if mask % nshards != shard:
                continue
            aliases = {tree[i]: ALIAS_VALUES[i] for i in range(n) if mask >> i & 1}
            if tree is EX_TREE2 and aliases:
                spec = {"tree": tree, "aliases": {k: TEMPLATE_LIKE[i % len(TEMPLATE_LIKE)] for i, k in enumerate(aliases)}, "spacing": None, "extra": {}}
                stt.record(spec, check_case(spec), enumerated=True, sample=(mask % 31 == 3))
            for spacing in (None, 0.5):
                spec = {"tree": tree, "aliases": aliases, "spacing": spacing, "extra": {"node_size": 10}}
                if spacing is None:
                    spec["node_order"] = list(reversed(tree))  # children before their parents
                stt.record(spec, check_case(spec), enumerated=True, sample=(mask % 97 == 5 and spacing is None))
            if aliases:
                # degenerate alias texts (round 8): every second aliased module is "renamed" to its own full name, the others
                # to the name of another module of the tree / to their own last component - the most specific aliased module
                # still decides, whatever its alias text looks like
                keys = list(aliases)
                own = {k: (k if j % 2 == 0 else (tree[(tree.index(k) + 1) % n] if j % 4 == 1 else k.rsplit(".", 1)[-1])) for j, k in enumerate(keys)}
                spec = {"tree": tree, "aliases": own, "spacing": None, "extra": {}}
                stt.record(spec, check_case(spec), enumerated=True, sample=(mask % 61 == 9))
            # the same architecture drawn a second time with other alias texts for the same modules, and a third time
            # with one alias fewer
            if aliases:
                again = {k: v[::-1] + "2" for k, v in aliases.items()}
                fewer = dict(list(aliases.items())[1:])
                spec = {"tree": tree, "aliases": aliases, "spacing": None, "extra": {},
                        "more_calls": [{"aliases": again, "spacing": None, "extra": {}}, {"aliases": fewer, "spacing": None, "extra": {}}]}
                stt.record(spec, check_case(spec), enumerated=True, sample=(mask % 197 == 7))


@st.composite
def alias_maps(draw, tree):
    keys = draw(st.lists(st.sampled_from(tree), min_size=1, max_size=5, unique=True))
    vals = draw(st.lists(st.sampled_from(ALIAS_VALUES + ["", "q", "a"] + TEMPLATE_LIKE), min_size=len(keys), max_size=len(keys)))
    out = dict(zip(keys, vals))
    if draw(st.integers(0, 3)) == 0:
        # alias texts that are module names themselves: the module's own name (an identity alias), its last component,
        # its parent's name, the name of some other module
        for k in keys:
            how = draw(st.integers(0, 5))
            if how == 0:
                out[k] = k
            elif how == 1:
                out[k] = k.rsplit(".", 1)[-1]
            elif how == 2:
                out[k] = k.rsplit(".", 1)[0]
            elif how == 3:
                out[k] = draw(st.sampled_from(tree))
    return out


@st.composite
def cases(draw):
    sib = RS.SIBLINGS + (["a+b", "a(1)"] if draw(st.integers(0, 4)) == 0 else [])
    tree = draw(RS.trees(root=draw(st.sampled_from(["q", "q", "a", "ab", "x"])), max_modules=12, siblings=sib))
    aliases = draw(alias_maps(tree))
    if draw(st.integers(0, 5)) == 0:
        base = draw(st.sampled_from(tree))
        aliases[draw(st.sampled_from([base + "x", base + ".nope", base[:-1] or "zz", "zz.y"]))] = "U"
        aliases = {k: v for k, v in aliases.items()}
    extra = {}
    for k, v in (("node_size", 10), ("with_labels", True), ("font_size", 7), ("node_color", "red"), ("arrows", False)):
        if draw(st.booleans()):
            extra[k] = v
    spacing = draw(st.sampled_from([None, None, 0.3, 1.0]))
    imports = draw(RS.import_relation(tree, max_edges=5))
    spec = {"tree": tree, "aliases": aliases, "spacing": spacing, "extra": extra, "imports": [list(e) for e in imports]}
    if draw(st.integers(0, 3)) == 0:
        spec["level_limit"] = draw(st.integers(0, 2))
    if draw(st.booleans()):
        spec["node_order"] = list(draw(st.permutations(tree)))
    if draw(st.integers(0, 2)) == 0:
        more = []
        for _ in range(draw(st.integers(1, 2))):
            if draw(st.booleans()):  # same aliased modules, other texts
                vals = draw(st.lists(st.sampled_from(ALIAS_VALUES), min_size=len(aliases), max_size=len(aliases)))
                again = dict(zip(aliases, vals))
            else:
                again = draw(alias_maps(tree))
            more.append({"aliases": again, "spacing": draw(st.sampled_from([None, 0.3])), "extra": {}})
        spec["more_calls"] = more
    return spec


def strategy(tier):
    return cases()


def run(ctx) -> None:
    nsh = 32
    ctx.exhaustive("all-alias-subsets", MOD, "exh_shard", [(i, nsh) for i in range(nsh)],
                   f"trees {EX_TREE} and {EX_TREE2}: all alias maps x spacing present/absent, + repeated calls on one architecture")
    ctx.random("random-trees-and-alias-maps", MOD, "strategy", "check_case", 8000 if ctx.tier == "quick" else 400000)
