"""C03 - violation reports name exactly the offending imports and the missing imports.
Same case space as C01; the AssertionError text is parsed and compared as sets with the reference report, and the
three public query methods are compared with the model's pair sets."""
from __future__ import annotations

from .. import models as M
from .. import rulespace as RS
from ..drive import eval_layer_rule, eval_rule, evaluable_for, make_evaluable, reuse_aware, to_filter, warmup
from ..msgparse import parse_message
from . import c01

ID = "C03"
MOD = __name__

RULE_TEXT = (
    "Same space as C01 (every import relation over the fixed small trees x every rule instantiation with unrelated and with related subjects and objects, plus "
    "Hypothesis trees). Oracle: models.rule_analysis -> set of realised (subject-side, object-side) pairs, "
    "map subject -> objects it is missing for, set of subjects missing any 'other' import; message parsed line by line "
    "(unparsable or duplicate lines are violations) and compared as sets in both directions. The three public query "
    "methods are called for every (graph, subjects, objects, kinds) and compared with the model's pair sets. "
    "Layer rules (C05's space: T4 partitions exhaustively for small import relations, Hypothesis layers) are covered too: "
    "the report of a failing LayerRule must list exactly the forbidden imports of models.layer_analysis, each module with "
    "its layer tag, and exactly the object layers without access. Non-trivial: the implementation raised AssertionError and the reference report has >= 1 line (rule cases), or the "
    "expected query result is non-empty (query cases); distinct by construction / by hash as in C01."
)
ASSUMPTIONS = c01.ASSUMPTIONS + [
    "module names are identifiers without quotes, so message lines parse unambiguously",
]


def expected_lines(rule, an) -> tuple:
    pairs = set(an["forbidden"])
    me = {k: set(v) for k, v in an["missing_edge"].items()}
    mo = set(an["missing_other"])
    return pairs, me, mo


def compare_report(tree, imports, rule, an, msg) -> list:
    viols = []
    shape = RS.shape_name(rule)
    lines = parse_message(msg)
    want_pairs, want_me, want_mo = expected_lines(rule, an)
    verb = "import" if rule["dir"] == "import" else "imported"
    got_pairs = set()
    got_me: dict = {}
    got_mo: dict = {}
    I = set(map(tuple, imports))
    subj_kind = rule["subj"]["kind"]
    obj_kind = rule["subj"]["kind"] if rule.get("anything") else rule["obj"]["kind"]
    all_objs = set(rule["subj"]["names"]) if rule.get("anything") else set(rule["obj"]["names"])

    def v(sig, detail):
        viols.append({"sig": f"C03/{sig}/{shape}", "key": {"shape": shape, "S": subj_kind, "O": obj_kind},
                      "detail": f"{detail}; message={msg!r}"})

    if len(set(msg.split("\n"))) != len(msg.split("\n")):
        v("duplicate-line", "identical lines repeated")
    for ln in lines:
        if ln["type"] == "unparsed":
            v("unparsed-line", f"line has none of the documented shapes: {ln['text']!r}")
            continue
        if ln["verb"] != verb:
            v("wrong-verb", f"line uses the wrong import direction word: {ln}")
        if ln["type"] == "pair":
            pair = (ln["subj"], ln["obj"])
            real = (pair if verb == "import" else (pair[1], pair[0])) in I
            if not real:
                v("unreal-import", f"line names an import that does not exist: {pair}")
            if ln["subj_tag"] is not None or ln["obj_tag"] is not None:
                v("layer-tag-on-module-rule", f"{ln}")
            got_pairs.add(pair)
        elif ln["type"] == "missing_edge":
            if ln["subj"] in got_me:
                v("duplicate-missing-line", f"two 'does not import' lines for subject {ln['subj']}")
            got_me.setdefault(ln["subj"], set()).update(o for o, _ in ln["objs"])
            if ln["subj_group"] != (subj_kind == "sub") or any(g != (obj_kind == "sub") for _, g in ln["objs"]):
                v("wrong-group-marker", f"{ln}")
        elif ln["type"] == "missing_other":
            if ln["subj"] in got_mo:
                v("duplicate-missing-line", f"two 'does not import any' lines for subject {ln['subj']}")
            got_mo.setdefault(ln["subj"], set()).update(o for o, _ in ln["objs"])
            if ln["subj_group"] != (subj_kind == "sub") or any(g != (obj_kind == "sub") for _, g in ln["objs"]):
                v("wrong-group-marker", f"{ln}")
        else:
            v("unexpected-line-type", f"{ln}")
    extra = got_pairs - want_pairs
    lost = want_pairs - got_pairs
    if extra:
        cls = "extra-pair-unrelated-to-subject" if any(
            p[0] not in _subject_den(tree, rule) for p in extra) else "extra-pair"
        v(cls, f"reported but not in the violating set: {sorted(extra)}")
    if lost:
        v("lost-pair", f"in the violating set but not reported: {sorted(lost)}")
    if got_me != want_me:
        v("missing-edge-lines", f"'does not import' lines {got_me} != expected {want_me}")
    want_mo_map = {s: all_objs for s in want_mo}
    if got_mo != want_mo_map:
        v("missing-other-lines", f"'does not import any module that is not' lines {got_mo} != expected {want_mo_map}")
    return viols


def _subject_den(tree, rule) -> set:
    out = set()
    for n in rule["subj"]["names"]:
        out |= M.den(tree, rule["subj"]["kind"], n)
    return out


def check_pair(tree, imports, rule, ev, impl_rule=None) -> dict:
    kind, msg = eval_rule(impl_rule or rule, ev)
    shape = RS.shape_name(rule)
    labels = [f"shape={shape}", f"impl={kind}"]
    if kind != "fail":
        return {"violations": [], "nontrivial": False, "labels": labels}
    multi_any = rule.get("anything") and len(rule["subj"]["names"]) > 1
    if multi_any:
        # documented ambiguity: compare against the per-subject reading only as an upper bound, the batch reading as lower
        strict = set()
        for n in rule["subj"]["names"]:
            r1 = dict(rule, subj={"kind": rule["subj"]["kind"], "names": [n]})
            strict |= M.rule_analysis(tree, imports, r1)["forbidden"]
        weak = M.rule_analysis(tree, imports, rule)["forbidden"]
        lines = parse_message(msg)
        got = {(ln["subj"], ln["obj"]) for ln in lines if ln["type"] == "pair"}
        viols = []
        if any(ln["type"] != "pair" for ln in lines):
            viols.append({"sig": f"C03/unexpected-line-type/{shape}/multi", "key": {"shape": shape}, "detail": msg})
        if not (weak <= got <= strict):
            viols.append({"sig": f"C03/pairs-outside-both-readings/{shape}/multi", "key": {"shape": shape},
                          "detail": f"got={sorted(got)} weak={sorted(weak)} strict={sorted(strict)}"})
        return {"violations": viols, "nontrivial": bool(strict), "labels": labels + ["multi-anything"]}
    an = M.rule_analysis(tree, imports, rule)
    viols = compare_report(tree, imports, rule, an, msg)
    n_lines = len(an["forbidden"]) + len(an["missing_edge"]) + len(an["missing_other"])
    buckets = []
    if an["forbidden"]:
        buckets.append("bucket=forbidden-" + ("other" if an["flags"]["other_forb"] else "edge"))
    if an["missing_edge"]:
        buckets.append("bucket=missing-edge")
    if an["missing_other"]:
        buckets.append("bucket=missing-other")
    return {"violations": viols, "nontrivial": n_lines >= 1, "labels": labels + buckets + [f"lines={min(n_lines, 4)}"]}


@reuse_aware
def check_case(spec: dict) -> dict:
    tree, imports = spec["tree"], [tuple(e) for e in spec["imports"]]
    ev = evaluable_for(spec)
    if spec.get("layers"):
        return check_layer_report(tree, imports, spec["layers"], spec["rule"], ev)
    if spec.get("query"):
        return check_queries(tree, imports, spec["subj"], spec["obj"], ev)
    res = check_pair(tree, imports, spec.get("model_rule", spec["rule"]), ev, spec["rule"])
    if "model_rule" in spec:
        res["labels"].append("regex-form-of-a-named-side")
    if spec.get("full_tree"):
        res["labels"].append("flattened-by-level-limit")
    return res


# ----------------------------------------------------------------------------------- layer-rule reports


def check_layer_report(tree, imports, layer_defs, rule, ev) -> dict:
    """A failing LayerRule: the 'imports' / 'is imported by' lines are exactly the forbidden imports of the reference layer
    semantics (models.layer_analysis), each with the layer tag of its two modules; 'Layer X does not import ...' lines name
    exactly the object layers without any access."""
    from . import c05

    layers = {ld["name"]: ld["modules"] for ld in layer_defs}
    kind, msg = eval_layer_rule(layer_defs, rule, ev)
    sh = c05.shape_name(rule)
    labels = ["layer-report", f"impl={kind}"]
    if kind != "fail":
        return {"violations": [], "nontrivial": False, "labels": labels}
    an = M.layer_analysis(tree, imports, layers, rule)
    if an["ok"]:
        return {"violations": [], "nontrivial": False, "labels": labels + ["verdict-differs (C05's business)"]}
    viols = []

    def v(sig, detail):
        viols.append({"sig": f"C03/layer-report/{sig}/{sh}", "key": {"shape": sh}, "detail": f"{detail}; layers={layers} rule={rule} message={msg!r}"})

    I = set(map(tuple, imports))
    fwd = rule["dir"] == "access"
    got_pairs, got_me, got_mo = set(), [], False
    tfz = frozenset(tree)
    if len(set(msg.split("\n"))) != len(msg.split("\n")):
        v("duplicate-line", "identical lines repeated")
    for ln in parse_message(msg):
        if ln["type"] == "pair":
            pair = (ln["subj"], ln["obj"])
            if (pair if fwd else (pair[1], pair[0])) not in I:
                v("unreal-import", f"line names an import that does not exist: {pair}")
            if (ln["verb"] == "import") != fwd:
                v("wrong-verb", f"{ln}")
            for who, tag in ((ln["subj"], ln["subj_tag"]), (ln["obj"], ln["obj_tag"])):
                lo = M.layer_of(layers, tfz, who)
                if tag != (("layer", lo) if lo else ("none",)):
                    v("wrong-layer-tag", f"{who} is in {lo or 'no layer'} but tagged {tag}")
            got_pairs.add(pair)
        elif ln["type"] == "layer_missing_edge":
            if ln["subj"] != rule["subj"]:
                v("wrong-subject-layer", f"{ln}")
            got_me += ln["objs"]
        elif ln["type"] == "layer_missing_other":
            if ln["subj"] != rule["subj"] or sorted(ln["objs"]) != sorted(rule["obj"] or [rule["subj"]]):
                v("wrong-missing-other-line", f"{ln}")
            got_mo = True
        else:
            v("unexpected-line", f"{ln}")
    if got_pairs != an["forbidden"]:
        extra, lost = got_pairs - an["forbidden"], an["forbidden"] - got_pairs
        v("extra-pair" if extra else "lost-pair", f"reported {sorted(got_pairs)} != violating set {sorted(an['forbidden'])}")
    if sorted(got_me) != an["missing_edge"]:
        v("missing-edge-lines", f"layers reported as not accessed {sorted(got_me)} != {an['missing_edge']}")
    if got_mo != an["missing_other"]:
        v("missing-other-line", f"'any layer that is not' line present={got_mo}, expected={an['missing_other']}")
    n = len(an["forbidden"]) + len(an["missing_edge"]) + int(an["missing_other"])
    return {"violations": viols, "nontrivial": n >= 1, "labels": labels + [f"lines={min(n, 4)}"]}


def layer_exh_shard(arg, stt, deadline) -> None:
    from . import c05
    from itertools import product

    tkey, shard, nshards, max_edges = arg
    tree = RS.TREES[tkey]
    cand = M.candidate_edges(tree, allow_root_target=False, root=tree[0])
    plans = []
    for config in c05.CONFIGS[tkey]:
        rules = c05.enum_layer_rules(list(config))
        for kinds in product(("names", "regex"), repeat=len(config)):
            plans.append((c05.defs_from(config, kinds), rules))
    i = 0
    for imports in RS.graphs_of(cand, shard, nshards, max_edges):
        if RS.timed_out(deadline, i, 2):
            stt.truncated = True
            return
        i += 1
        ev = make_evaluable(tree, imports)
        for layer_defs, rules in plans:
            for rule in rules:
                res = check_layer_report(tree, imports, layer_defs, rule, ev)
                res["labels"] = res["labels"][:2]
                stt.record({"tree": tree, "imports": imports, "layers": layer_defs, "rule": rule}, res, enumerated=True,
                           sample=(i % 67 == 9 and rule["verb"] == "should_only" and not rule["exc"]))


def layer_strategy(tier):
    from . import c05

    return c05.cases()


# ----------------------------------------------------------------------------------- public query methods


def _pairs(lst) -> set:
    return {(a.identifier, b.identifier) for a, b in lst}


def check_queries(tree, imports, subj, obj, ev) -> dict:
    """subj/obj: {kind, names}. Compares the three EvaluableArchitecture query methods with the model."""
    I = set(map(tuple, imports))
    S = [(n, M.den(tree, subj["kind"], n)) for n in subj["names"]]
    O = [(n, M.den(tree, obj["kind"], n)) for n in obj["names"]]
    allO = frozenset().union(*[d for _, d in O])
    allS = frozenset().union(*[d for _, d in S])
    fs = [to_filter(subj["kind"], n) for n in subj["names"]]
    fo = [to_filter(obj["kind"], n) for n in obj["names"]]
    viols = []
    nontrivial = False
    key = {"S": subj["kind"], "O": obj["kind"]}
    kk = f"S={subj['kind']},O={obj['kind']}"

    try:
        got = ev.get_dependencies(fs, fo)
        got_map = {(a.identifier, b.identifier): _pairs(v) for (a, b), v in got.items()}
        want_map = {(sn, on): {(u, v) for (u, v) in I if u in ds and v in do} for sn, ds in S for on, do in O}
        nontrivial |= any(want_map.values())
        if got_map != want_map:
            viols.append({"sig": f"C03/query/get_dependencies/{kk}", "key": key,
                          "detail": f"got={got_map} want={want_map}"})

        got = ev.any_dependencies_from_dependents_to_modules_other_than_dependent_upons(fs, fo)
        got_map = {a.identifier: _pairs(v) for a, v in got.items()}
        want_map = {sn: {(u, v) for (u, v) in I if u in ds and v not in ds | allO} for sn, ds in S}
        nontrivial |= any(want_map.values())
        if got_map != want_map:
            viols.append({"sig": f"C03/query/other-than-dependent-upons/{kk}", "key": key,
                          "detail": f"got={got_map} want={want_map}"})

        # 'S should be imported by O' asks: who else than O imports S?  (dependents=O, dependent_upons=S)
        got = ev.any_other_dependencies_on_dependent_upons_than_from_dependents(fo, fs)
        got_map = {a.identifier: _pairs(v) for a, v in got.items()}
        want_map = {sn: {(u, v) for (u, v) in I if v in ds and u not in ds | allO} for sn, ds in S}
        nontrivial |= any(want_map.values())
        if got_map != want_map:
            viols.append({"sig": f"C03/query/other-dependents/{kk}", "key": key,
                          "detail": f"got={got_map} want={want_map}"})
    except Exception as e:  # noqa: BLE001
        viols.append({"sig": f"C03/query/error/{kk}", "key": key, "detail": f"{type(e).__name__}: {e}"})
    return {"violations": viols, "nontrivial": nontrivial, "labels": ["query", kk]}


def exh_shard(arg, st, deadline) -> None:
    tkey, shard, nshards, max_edges, root_target, max_s, max_o = arg[:7]
    related = len(arg) > 7 and arg[7]
    grand = len(arg) > 8 and arg[8]  # imports from a module to a descendant two or more levels below it are candidates too
    tree = RS.TREES[tkey]
    cand = M.candidate_edges(tree, allow_root_target=root_target, root=tree[0], grand=grand)
    if related:  # some subject is the same module as / above / below some object
        rules = RS.enum_related_rules(tree, max_s, max_o)
        so = sorted({(r["subj"]["kind"], tuple(r["subj"]["names"]), r["obj"]["kind"], tuple(r["obj"]["names"])) for r in rules})
        so = [({"kind": a, "names": list(b)}, {"kind": c, "names": list(d)}) for a, b, c, d in so]
    else:
        rules = RS.enum_rules(tree, max_s, max_o, root=tree[0])
        so = RS.enum_so_kinds(tree, max_s, max_o, root=tree[0])
    i = 0
    for imports in RS.graphs_of(cand, shard, nshards, max_edges):
        if RS.timed_out(deadline, i, 8):
            st.truncated = True
            return
        i += 1
        ev = make_evaluable(tree, imports)
        warm = RS.T4_DECOY if (i % 8 == 5 and tkey == "T4") else None
        with warmup(warm):
            for rule in rules:
                res = check_pair(tree, imports, rule, ev)
                if res["labels"][1] != "impl=fail":
                    res["labels"] = res["labels"][1:2]
                spec = {"tree": tree, "imports": imports, "rule": rule}
                if warm:
                    spec["warm"] = warm
                    res["labels"].append("reused-rule-object")
                st.record(spec, res, enumerated=True, sample=(i % 97 == 5))
        for subj, obj in so:
            res = check_queries(tree, imports, subj, obj, ev)
            res["labels"] = res["labels"][:1]
            st.record({"tree": tree, "imports": imports, "query": True, "subj": subj, "obj": obj}, res,
                      enumerated=True, sample=(i % 397 == 7))


def strategy(tier):
    from hypothesis import strategies as hst

    @hst.composite
    def both(draw):
        spec = draw(RS.rule_cases(root="q", max_modules=14))
        if spec["rule"].get("obj") and draw(hst.integers(0, 3)) == 0:
            named = spec.get("model_rule", spec["rule"])  # the query methods take concrete module filters
            return {"tree": spec["tree"], "imports": spec["imports"], "query": True,
                    "subj": named["subj"], "obj": named["obj"]}
        return spec

    return both()


def run(ctx) -> None:
    c01.run_space(ctx, MOD)
    quick = ctx.tier == "quick"
    ctx.exhaustive("layer-rule-reports-T4", MOD, "layer_exh_shard", [("T4", i, 32, 2 if quick else 4) for i in range(32)],
                   f"T4: import relations with <= {2 if quick else 4} edges x 5 layer partitions x named/regex per layer x all layer rules: report of every failing layer rule")
    ctx.random("layer-rule-reports-random", MOD, "layer_strategy", "check_case", 6000 if quick else 100000)
