"""C14 - module identity follows dotted-name boundaries, never raw string prefixes.
Metamorphic: the same abstract case is evaluated under a collision-free and under an adversarial injective renaming of
path components; all structured outcomes must be equal after mapping the names back."""
from __future__ import annotations

import copy
from itertools import permutations

from hypothesis import strategies as st

import pytestarch.eval_structure.networkxgraph as NXG

from .. import models as M
from .. import projspace as PS
from .. import rulespace as RS
from ..drive import Project, eval_layer_rule, eval_rule, make_evaluable, scan_outcome
from ..msgparse import parse_message
from . import c17

ID = "C14"
MOD = __name__

RULE_TEXT = (
    "Abstract cases over component tokens (rule on a direct graph incl. related names, batches and the 'anything' "
    "aliases; layer rule with named layers; alias map for plotting; scan with module_path below root_path, externals "
    "excluded and included) are instantiated twice: with a collision-free renaming (equal-length distinct tokens) and "
    "with an adversarial one drawn from {a, ab, a_b, aa, b, ba, abc, a_, aab, b_a, ...}. Verdict, parsed message lines "
    "incl. '(layer X)'/'(no layer)' tags, label map, module and import sets must be identical after mapping names back. "
    "Exhaustive part: abstract tree root{X{Q,Z},Y,W}, every import relation with <= 2 edges, every unrelated 1x1 rule and 5 "
    "layer partitions (two of them listing a package together with its own sub package) x all 6 assignments of (a, ab, a_b) to (X, Y, W). Random part: Hypothesis. Non-trivial: under the "
    "adversarial renaming some sibling is a string prefix of another sibling and one of them occurs in the rule, layer "
    "definition, alias map or module_path."
)
ASSUMPTIONS = [
    "renamings are injective maps on component tokens applied to every name of the case (tree, imports, rule, layers, aliases, directories)",
    "regex specifications are excluded (renaming changes what they match)",
]

ADVERSARIAL = ["a", "ab", "a_b", "aa", "b", "ba", "abc", "a_", "aab", "b_a", "bab", "a_bc", "aaa", "b_", "ab_", "baa"]


def ren(name: str, mp: dict) -> str:
    return ".".join(mp.get(c, c) for c in name.split("."))


def ren_rule(rule, mp):
    r = copy.deepcopy(rule)
    r["subj"]["names"] = [ren(n, mp) for n in r["subj"]["names"]]
    if r.get("obj"):
        r["obj"]["names"] = [ren(n, mp) for n in r["obj"]["names"]]
    return r


def back_lines(msg, inv) -> list:
    out = []
    for ln in parse_message(msg):
        ln = dict(ln)
        for k in ("subj", "obj"):
            if k in ln and isinstance(ln[k], str) and ln["type"] in ("pair", "missing_edge", "missing_other"):
                ln[k] = ren(ln[k], inv)
        if "objs" in ln and ln["type"] in ("missing_edge", "missing_other"):
            ln["objs"] = sorted([ren(o, inv), g] for o, g in ln["objs"])
        out.append(ln)
    return sorted(out, key=repr)


def outcome_rule(spec, mp) -> tuple:
    inv = {v: k for k, v in mp.items()}
    tree = [ren(m, mp) for m in spec["tree"]]
    imports = [(ren(u, mp), ren(v, mp)) for u, v in spec["imports"]]
    ev = make_evaluable(tree, imports)
    kind, msg = eval_rule(ren_rule(spec["rule"], mp), ev)
    return (kind, back_lines(msg, inv) if kind == "fail" else (msg.split(":")[0] if kind == "error" else None))


def outcome_layer(spec, mp) -> tuple:
    inv = {v: k for k, v in mp.items()}
    tree = [ren(m, mp) for m in spec["tree"]]
    imports = [(ren(u, mp), ren(v, mp)) for u, v in spec["imports"]]
    layers = [dict(ld, modules=[ren(m, mp) for m in ld["modules"]]) for ld in spec["layers"]]
    ev = make_evaluable(tree, imports)
    kind, msg = eval_layer_rule(layers, spec["rule"], ev)
    return (kind, back_lines(msg, inv) if kind == "fail" else (msg.split(":")[0] if kind == "error" else None))


def outcome_labels(spec, mp) -> tuple:
    inv = {v: k for k, v in mp.items()}
    tree = [ren(m, mp) for m in spec["tree"]]
    aliases = {ren(k, mp): v for k, v in spec["aliases"].items()}
    ev = make_evaluable(tree, [])
    res = c17.draw(ev, {"aliases": aliases})
    if res[0] != "ok":
        return ("error", res[1])
    labels = res[1][0][1].get("labels") or {}
    # label = alias + remainder; map module keys back, and the remainder (dotted components after the alias) back too
    out = {}
    for m, lab in labels.items():
        key = ren(m, inv)
        best = None
        for a in aliases:
            if M.is_self_or_desc(m, a) and (best is None or len(a) > len(best)):
                best = a
        if not isinstance(lab, str):
            out[key] = ("not-a-string", repr(lab))  # compared like any other outcome: differs from a proper label
            continue
        out[key] = lab
        # normalise: express the label as (alias value or None, remainder tokens)
        if best is not None and lab.startswith(aliases[best]):
            rest = lab[len(aliases[best]):]
            out[key] = ("alias", aliases[best], tuple(inv.get(c, "?" + c) for c in rest.split(".") if c))
        else:
            out[key] = ("raw", tuple(inv.get(c, "?" + c) for c in lab.split(".")))
    return ("ok", sorted(out.items()))


def outcome_scan(spec, mp) -> tuple:
    inv = {v: k for k, v in mp.items()}
    root = mp[spec["root"]]

    def rp(rel):
        parts = rel.split("/")
        last = parts[-1]
        if last.endswith(".py") and last != "__init__.py":
            parts[-1] = mp.get(last[:-3], last[:-3]) + ".py"
        elif last != "__init__.py":
            parts[-1] = mp.get(last, last)
        return "/".join(mp.get(p, p) for p in parts[:-1]) + ("/" if len(parts) > 1 else "") + parts[-1]

    files = {}
    for f in spec["pyfiles"]:
        files[rp(f)] = ""
    for f, t in spec["imports"]:
        files[rp(f)] += "import " + ren(t, mp) + "\n"
    dirs = [rp(d) for d in spec["dirs"]]
    kw = {"exclude_external_libraries": False} if spec.get("include_external") else {}
    if spec.get("level_limit") is not None:
        kw["level_limit"] = spec["level_limit"]
    if spec.get("exclude_files"):
        kw["exclusions"] = tuple("*/" + rp(f).rsplit("/", 1)[-1] for f in spec["exclude_files"])
    with Project(root, files, dirs) as pr:
        sub = rp(spec["module_path"]) if spec["module_path"] else ""
        if spec.get("relative_paths"):
            # root_path and module_path given relative to the working directory
            import os
            cwd = os.getcwd()
            try:
                os.chdir(pr.base)
                res = scan_outcome(root, root + ("/" + sub if sub else ""), **kw)
            finally:
                os.chdir(cwd)
        else:
            res = scan_outcome(pr.path(), pr.path(sub) if sub else pr.path(), **kw)
    if res[0] != "ok":
        return ("error", res[1].split(":")[0])
    nodes, imps, hier = res[1]

    def back(n):
        return ".".join(inv.get(c, c) for c in n.split("."))

    return ("ok", sorted(back(n) for n in nodes), sorted((back(a), back(b)) for a, b in imps), sorted((back(a), back(b)) for a, b in hier))


OUTCOME = {"rule": outcome_rule, "layer": outcome_layer, "labels": outcome_labels, "scan": outcome_scan}


def mentioned_tokens(spec) -> set:
    names = []
    if spec["type"] == "rule":
        names = spec["rule"]["subj"]["names"] + (spec["rule"]["obj"]["names"] if spec["rule"].get("obj") else [])
    elif spec["type"] == "layer":
        names = [m for ld in spec["layers"] for m in ld["modules"]]
    elif spec["type"] == "labels":
        names = list(spec["aliases"])
    elif spec["type"] == "scan":
        names = [PS.dotted(spec["root"], spec["module_path"])] if spec["module_path"] else []
    return set(names)


def all_names(spec) -> list:
    if spec["type"] == "scan":
        return sorted(PS.tree_modules(spec))
    return spec["tree"]


def collision_present(spec, mp) -> bool:
    """Under mp some module mentioned in the case has a sibling whose name it string-prefixes (or vice versa)."""
    names = all_names(spec)
    ment = mentioned_tokens(spec)
    for m in ment:
        if "." not in m:
            continue
        parent = m.rsplit(".", 1)[0]
        me = mp.get(m.rsplit(".", 1)[1])
        for s in names:
            if s != m and "." in s and s.rsplit(".", 1)[0] == parent:
                other = mp.get(s.rsplit(".", 1)[1])
                if me and other and (other.startswith(me) or me.startswith(other)):
                    return True
    return False


def check_case(spec: dict) -> dict:
    fn = OUTCOME[spec["type"]]
    a = fn(spec, spec["rho1"])
    b = fn(spec, spec["rho2"])
    viols = []
    if a != b:
        what = "verdict" if a[0] != b[0] else ("message" if spec["type"] in ("rule", "layer") else "result")
        detail_kind = ""
        if spec["type"] == "rule":
            detail_kind = "/" + RS.shape_name(spec["rule"])
        viols.append({"sig": f"C14/{spec['type']}/{what}-changes-under-renaming{detail_kind}", "key": {"type": spec["type"]},
                      "detail": f"collision-free renaming -> {a}; adversarial renaming {spec['rho2']} -> {b}"})
    return {"violations": viols, "nontrivial": collision_present(spec, spec["rho2"]),
            "labels": [f"type={spec['type']}", f"outcome={a[0]}"]}


# ------------------------------------------------------------------------------ exhaustive

ABS_TREE = ["R", "R.X", "R.X.Q", "R.X.Z", "R.Y", "R.W"]
LAYER_CONFIGS = [
    [{"name": "L1", "kind": "names", "modules": ["R.X"]}, {"name": "L2", "kind": "names", "modules": ["R.Y"]}],
    [{"name": "L1", "kind": "names", "modules": ["R.X", "R.W"]}, {"name": "L2", "kind": "names", "modules": ["R.Y"]}],
    [{"name": "L1", "kind": "names", "modules": ["R.X.Z"]}, {"name": "L2", "kind": "names", "modules": ["R.Y"]}, {"name": "L3", "kind": "names", "modules": ["R.W"]}],
    # a layer may list a package together with one of its own sub packages
    [{"name": "L1", "kind": "names", "modules": ["R.X", "R.X.Z"]}, {"name": "L2", "kind": "names", "modules": ["R.Y"]}],
    [{"name": "L1", "kind": "names", "modules": ["R.X", "R.X.Q"]}, {"name": "L2", "kind": "names", "modules": ["R.W", "R.Y"]}],
]


def exh_shard(arg, stt, deadline) -> None:
    shard, nshards, n_perms = arg
    from . import c05
    cand = M.candidate_edges(ABS_TREE, allow_root_target=False, root="R")
    rules = [r for r in RS.enum_rules(ABS_TREE, 1, 1, root="R")]
    rho1 = {"R": "r", "X": "k1", "Z": "k2", "Y": "k3", "W": "k4", "Q": "k5"}
    perms = list(permutations(["a", "ab", "a_b"]))
    perms = [perms[0], perms[3], perms[4]] if n_perms == 3 else perms  # quick: the three rotations
    i = 0
    for imports in RS.graphs_of(cand, shard, nshards, 2):
        if RS.timed_out(deadline, i, 2):
            stt.truncated = True
            return
        i += 1
        for px, py, pw in perms:
            rho2 = {"R": "r", "X": px, "Z": "aa", "Y": py, "W": pw, "Q": "aab"}
            for rule in rules:
                spec = {"type": "rule", "tree": ABS_TREE, "imports": imports, "rule": rule, "rho1": rho1, "rho2": rho2}
                res = check_case(spec)
                res["labels"] = res["labels"][:1]
                stt.record(spec, res, enumerated=True, sample=(i % 23 == 1 and px == "a" and rule["exc"]))
            for cfg in LAYER_CONFIGS:
                for lr in c05.enum_layer_rules([ld["name"] for ld in cfg]):
                    spec = {"type": "layer", "tree": ABS_TREE, "imports": imports, "layers": cfg, "rule": lr, "rho1": rho1, "rho2": rho2}
                    res = check_case(spec)
                    res["labels"] = res["labels"][:1]
                    stt.record(spec, res, enumerated=True, sample=(i % 31 == 1 and px == "ab" and lr["exc"]))


def scan_family_shard(arg, stt, deadline) -> None:
    """A fixed project scanned under every option combination and every assignment of prefix-related names: two packages
    T1, T2 below the root T0; T1/T3.py imports modules of T2 (one of them possibly excluded), T2 holds T4.py, T5.py and
    the sub package T6 - T4/T5/T6 (and T1/T2) get names that string-extend each other under the adversarial renaming."""
    (shard,) = arg
    base = {"type": "scan", "root": "T0", "dirs": ["T1", "T2", "T2/T6"],
            "pyfiles": ["T1/T3.py", "T1/__init__.py", "T2/T4.py", "T2/T5.py", "T2/T6/T7.py", "T2/__init__.py", "main.py"], "otherfiles": [],
            "imports": [["T1/T3.py", "T0.T2.T4"], ["T1/T3.py", "T8.T9"], ["T2/T5.py", "T0.T2.T6.T7"], ["main.py", "T0.T1.T3"], ["T2/T6/T7.py", "T0.T2.T4"],
                        ["main.py", "T0.T2.T5"]]}  # (the only import from T1 into T2 names T4)
    rho1 = {f"T{i}": f"k{i:02d}" for i in range(12)}
    triples = list(permutations(["a", "ab", "a_b", "aa"], 3))
    i = 0
    for (n4, n5, n6) in triples:
        for (n1, n2) in (("b", "ba"), ("ba", "b"), ("c", "d")):
            i += 1
            if i % 16 != shard:
                continue
            rho2 = dict(rho1, T4=n4, T5=n5, T6=n6, T1=n1, T2=n2, T0="q", T8="qx", T9="aab")
            for mp in ("", "T2"):
                for ext in (False, True):
                    for limit in (None, 1, 2):
                        for excl in ([], ["T2/T4.py"], ["T2/T5.py"]):
                            for rel in (False, True):
                                spec = dict(base, module_path=mp, include_external=ext, level_limit=limit, exclude_files=excl,
                                            relative_paths=rel, rho1=rho1, rho2=rho2)
                                res = check_case(spec)
                                res["labels"] = res["labels"][:1] + (["excluded-file+level-limit"] if excl and limit else [])
                                stt.record(spec, res, enumerated=True, sample=(i % 7 == 1 and bool(excl) and limit == 1 and not rel and not ext))


# ------------------------------------------------------------------------------ random

TOKENS = [f"T{i}" for i in range(12)]


@st.composite
def renamings(draw, tokens):
    free = [f"k{i:02d}" for i in range(len(tokens))]
    rho1 = dict(zip(tokens, draw(st.permutations(free))))
    adv = draw(st.permutations(ADVERSARIAL))
    rho2 = dict(zip(tokens, adv[: len(tokens)]))
    return rho1, rho2


@st.composite
def cases(draw):
    typ = draw(st.sampled_from(["rule", "rule", "layer", "labels", "scan", "scan"]))
    if typ == "scan":
        tree = draw(PS.project_trees(root="T0", names=TOKENS[1:8], max_depth=3, with_noise=False))
        # targets outside the scanned root as well: top-level names and dotted names made of tokens that the renamings map too
        tree = draw(PS.with_imports(tree, max_imports=10, extra_targets=["T8", "T9.T10", "T10", "T11.T8", "T9"]))
        dirs = tree["dirs"]
        tree["module_path"] = draw(st.sampled_from(dirs)) if dirs else ""
        tree["include_external"] = draw(st.booleans())
        tree["relative_paths"] = draw(st.integers(0, 2)) == 0
        tree["level_limit"] = draw(st.sampled_from([None, None, 1, 2]))
        plain = [f for f in tree["pyfiles"] if not f.endswith("__init__.py")]
        if plain and draw(st.integers(0, 2)) == 0:
            # a file is excluded although another file (in another directory, if there is one) imports it; mostly together
            # with a level limit, which maps names that are no modules onto their parent packages
            ex = draw(st.sampled_from(plain))
            tree["exclude_files"] = [ex]
            others = [f for f in tree["pyfiles"] if f != ex and f.split("/")[0] != ex.split("/")[0]] or [f for f in tree["pyfiles"] if f != ex]
            if others:
                tree["imports"] = tree["imports"] + [[draw(st.sampled_from(others)), PS.dotted(tree["root"], ex)]]
            if draw(st.integers(0, 3)) > 0:
                tree["level_limit"] = draw(st.sampled_from([1, 2]))
            if draw(st.booleans()):
                tree["module_path"] = ""  # scan the whole root, so that importer and excluded file are both inside
        rho1, rho2 = draw(renamings(TOKENS[:12]))
        return dict(tree, type="scan", rho1=rho1, rho2=rho2)
    tree = draw(RS.trees(root="T0", max_modules=10, siblings=TOKENS[1:7]))
    rho1, rho2 = draw(renamings(TOKENS[:7]))
    if typ == "rule":
        if draw(st.booleans()):
            rule = draw(RS.unrelated_rule(tree))
        else:
            ks, ko = draw(st.sampled_from(RS.KINDS)), draw(st.sampled_from(RS.KINDS))
            S = sorted(set(draw(st.lists(st.sampled_from(tree), min_size=1, max_size=3))))
            O = sorted(set(draw(st.lists(st.sampled_from(tree), min_size=1, max_size=3))))
            v, d, e = draw(st.sampled_from(RS.SHAPES))
            anything = draw(st.integers(0, 4)) == 0
            rule = {"verb": "should_not" if anything else v, "dir": d, "exc": False if anything else e, "anything": anything,
                    "subj": {"kind": ks, "names": S, "as_str": False}, "obj": None if anything else {"kind": ko, "names": O, "as_str": False}}
        imports = draw(RS.import_relation(tree, focus=RS.rule_focus(tree, rule), max_edges=10))
        return {"type": "rule", "tree": tree, "imports": [list(x) for x in imports], "rule": rule, "rho1": rho1, "rho2": rho2}
    if typ == "layer":
        from . import c05
        inner = draw(c05.cases())
        # c05 draws its own tree over root 'q' with sibling names: translate to tokens
        names = sorted({c for m in inner["tree"] for c in m.split(".")})
        tok = {n: TOKENS[i] for i, n in enumerate(names)}
        if len(names) > len(TOKENS):
            names = names[: len(TOKENS)]
        tree2 = [ren(m, tok) for m in inner["tree"]]
        layers = [{"name": ld["name"], "kind": "names", "modules": [ren(m, tok) for m in ld["modules"]],
                   "as_str": len(ld["modules"]) == 1 and draw(st.booleans())} for ld in inner["layers"]]
        if draw(st.booleans()):
            # nested member: a layer lists one of its modules together with a descendant of it
            li = draw(st.integers(0, len(layers) - 1))
            below = [m for m in tree2 if any(M.is_strict_desc(m, x) for x in layers[li]["modules"])]
            if below:
                layers[li]["modules"] = layers[li]["modules"] + [draw(st.sampled_from(below))]
                layers[li]["as_str"] = False
        imports = [[ren(u, tok), ren(v, tok)] for u, v in inner["imports"]]
        r1, r2 = draw(renamings([tok[n] for n in names]))
        return {"type": "layer", "tree": tree2, "imports": imports, "layers": layers, "rule": inner["rule"], "rho1": r1, "rho2": r2}
    keys = draw(st.lists(st.sampled_from(tree), min_size=1, max_size=4, unique=True))
    vals = draw(st.lists(st.sampled_from(["A", "B.c", "x+y", "(z)", "W"]), min_size=len(keys), max_size=len(keys)))
    return {"type": "labels", "tree": tree, "aliases": dict(zip(keys, vals)), "rho1": rho1, "rho2": rho2}


def strategy(tier):
    return cases()


def run(ctx) -> None:
    nsh = 64
    n_perms = 3 if ctx.tier == "quick" else 6
    ctx.exhaustive("abstract-T4-renamings", MOD, "exh_shard", [(i, nsh, n_perms) for i in range(nsh)],
                   "abstract tree R{X{Z},Y,W}: all import relations with <= 2 edges x all unrelated 1x1 rules and 3 layer partitions with all layer rules x 6 assignments of (a, ab, a_b) to (X, Y, W)")
    ctx.exhaustive("fixed-project-scan-options-x-name-assignments", MOD, "scan_family_shard", [(i,) for i in range(16)],
                   "fixed two-package project: 24 assignments of (a, ab, a_b, aa) to three sibling entries x 3 package namings x module_path in {root, T2} x "
                   "externals in/excluded x level_limit in {None, 1, 2} x {no exclusion, an imported file excluded, another file excluded} x absolute/relative paths")
    ctx.random("random-cases", MOD, "strategy", "check_case", 6000 if ctx.tier == "quick" else 120000)
