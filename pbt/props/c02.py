"""C02 - every import statement in a scanned file becomes an import edge, only those."""
from __future__ import annotations

import time
from itertools import product

from hypothesis import strategies as st

from pytestarch.eval_structure.evaluable_architecture import ModuleNameFilter

from .. import astslots as A
from .. import models as M
from ..drive import Project, scan_outcome

ID = "C02"
MOD = __name__

RULE_TEXT = (
    "Statement-list positions are enumerated from the running interpreter's ast grammar (22 on CPython 3.12: function/"
    "class bodies, loop bodies and else, if/else, with, try/except/else/finally, try*/except*, match cases). Exhaustive "
    "part: every nesting path of depth <= 2 (quick; depth <= 3 in thorough for a form subset) x every import form (plain, "
    "aliased, multi-name, from-name, from-submodule, mixed from, star at module level, relative levels 1-2 to modules / "
    "names / sub-packages, inside __init__.py, non-module and external targets), ~30 sites with distinct targets per "
    "generated file, source built with ast + ast.unparse, compile()d and re-parsed to confirm the import sits at the "
    "intended path. Random part: Hypothesis project trees (packages with/without __init__.py, depth <= 4) with random "
    "sites. Oracle: target per the property text (P.n if a scanned module else P; relative forms resolved against the "
    "importer's package); required edge iff target is a scanned module other than the importer and not one of its "
    "ancestors; required subset-of actual and actual subset-of required + tolerated. Non-trivial: site nested at depth "
    ">= 1 or a non-plain form; distinct = distinct (path, form) in the exhaustive part."
)
ASSUMPTIONS = [
    "imports of the importing file's own ancestor packages are ignored in both directions (outside the claim)",
    "for 'from P import n' with P.n a scanned module, an additional edge to P is tolerated (the statement names P)",
    "no x.py next to a directory x/, no symlinks; generated files compile",
]


# ------------------------------------------------------------------------------ sites


def site_source(site) -> str:
    if site["kind"] == "import":
        return "import " + ", ".join(n + (f" as {a}" if a else "") for n, a in site["names"])
    dots = "." * site["level"]
    names = ", ".join(n + (f" as {a}" if a else "") for n, a in site["names"])
    return f"from {dots}{site['module'] or ''} import {names}"


def importer_package(importer_module: str) -> str:
    """Package against which relative imports of this file resolve (the file's directory)."""
    return importer_module.rsplit(".", 1)[0]


def site_targets(site, importer: str, scanned: set) -> tuple:
    """(required targets, tolerated targets) per the property text."""
    req, tol = set(), set()
    if site["kind"] == "import":
        for n, _ in site["names"]:
            if n in scanned:
                req.add(n)
    else:
        if site["level"] == 0:
            base = site["module"]
        else:
            pkg = importer_package(importer).split(".")
            up = site["level"] - 1
            if up >= len(pkg):
                return set(), set()
            base_parts = pkg[: len(pkg) - up]
            base = ".".join(base_parts + ([site["module"]] if site["module"] else []))
        for n, _ in site["names"]:
            if n != "*" and f"{base}.{n}" in scanned:
                req.add(f"{base}.{n}")
                tol.add(base)
            elif base in scanned:
                req.add(base)
    anc = set(M.ancestors(importer))
    req = {t for t in req if t != importer and t not in anc}
    return req, tol


def form_label(site) -> str:
    return site.get("form", site["kind"])


def path_label(path) -> str:
    return ">".join(A.slot_name(tuple(s)) for s in path) or "module-level"


def last_field(path) -> str:
    if not path:
        return "module-level"
    s = path[-1]
    return s[1] if len(s) == 2 else s[1]  # body / orelse / finalbody / handlers / cases


# ------------------------------------------------------------------------------ project evaluation


def modules_of(files: dict, dirs, root: str) -> set:
    mods = {root}
    for rel in files:
        if not rel.endswith(".py"):
            continue
        parts = rel[:-3].split("/")
        for i in range(1, len(parts) + 1):
            mods.add(".".join([root] + parts[:i]))
    for d in dirs:
        parts = d.split("/")
        for i in range(1, len(parts) + 1):
            mods.add(".".join([root] + parts[:i]))
    return mods


def encode_source(text: str, how: str) -> bytes:
    """The same source as bytes the way editors and PEP 263 allow it (all of them compile())."""
    if how == "bom":
        data = b"\xef\xbb\xbf" + text.encode("utf-8")
    elif how == "latin1-cookie":
        data = b"# -*- coding: latin-1 -*-\n# caf\xe9\n" + text.encode("latin-1")
    elif how == "utf8-cookie":
        data = "# coding: utf-8\n# caf\u00e9 \u2603\n".encode("utf-8") + text.encode("utf-8")
    else:
        raise ValueError(how)
    compile(data, "<generated>", "exec")  # harness error if this is not valid Python
    return data


OLD_GRAMMAR_CLASSES = ("Match", "TryStar")  # statement classes that not every supported interpreter has (3.10 / 3.11)


def old_grammar_scan(root_path: str) -> tuple:
    """The scan as an interpreter without match statements / except* runs it (pbt/oldgrammar_child.py): a fresh process in
    which those classes are removed from the ast module before pytestarch is imported."""
    import json
    import os
    import subprocess
    import sys
    from pathlib import Path

    here = Path(__file__).resolve().parents[2]
    repo = os.environ.get("VERIF_REPO", "/repo")
    env = dict(os.environ, PYTHONHASHSEED="0", PYTHONPATH=os.pathsep.join([str(Path(repo) / "src"), str(here), str(here / ".deps")]))
    p = subprocess.run([sys.executable, "-m", "pbt.oldgrammar_child", root_path], capture_output=True, text=True, env=env, cwd=str(here))
    try:
        out = json.loads(p.stdout.strip().splitlines()[-1])
    except Exception:  # noqa: BLE001
        return ("error", f"child interpreter failed: {p.stderr[-400:]}", None)
    if "error" in out:
        return ("error", out["error"], None)
    nodes, imps, hier = out["ok"]
    return ("ok", (frozenset(nodes), frozenset(map(tuple, imps)), frozenset(map(tuple, hier))), None)


def evaluate_project(root: str, support: dict, importers: dict, stt_or_none=None, dirs=(), encodings=None, old_grammar=False):
    """importers: {relpath: [site...]}. Returns list of per-site results [(relpath, site, violations, nontrivial)], plus file-level."""
    files = dict(support)
    eff_paths = {}
    for rel, sites in importers.items():
        text, effs, uncovered = A.render_file([([tuple(s) for s in site["path"]], site_source(site)) for site in sites])
        files[rel] = encode_source(text, encodings[rel]) if encodings and rel in encodings else text
        eff_paths[rel] = effs
    scanned = modules_of(files, dirs, root)
    with Project(root, files, dirs) as pr:
        res = old_grammar_scan(pr.path()) if old_grammar else scan_outcome(pr.path())
    out = []
    if res[0] != "ok":
        for rel, sites in importers.items():
            out.append((rel, None, [{"sig": "C02/scan-error" + ("/interpreter-without-match-statements" if old_grammar else ""), "key": {}, "detail": res[1]}], True))
        return out
    nodes, imps, hier = res[1]
    ev = res[2]
    # public API cross-check: all dependencies inside the root
    try:
        if ev is None:
            raise LookupError
        deps = ev.get_dependencies([ModuleNameFilter(name=root)], [ModuleNameFilter(name=root)])
        api = {(a.identifier, b.identifier) for lst in deps.values() for a, b in lst}
    except LookupError:
        api = None
    except Exception as e:  # noqa: BLE001
        api = None
        out.append((None, None, [{"sig": "C02/get_dependencies-error", "key": {}, "detail": f"{type(e).__name__}: {e}"}], True))
    internal_imps = {(u, v) for u, v in imps if u in scanned and v in scanned}
    if api is not None and api != internal_imps:
        out.append((None, None, [{"sig": "C02/get_dependencies-differs-from-graph", "key": {},
                                  "detail": f"api-only={sorted(api - internal_imps)[:5]} graph-only={sorted(internal_imps - api)[:5]}"}], True))
    for rel, sites in importers.items():
        importer = ".".join([root] + rel[:-3].split("/"))
        actual = {v for u, v in internal_imps if u == importer}
        anc = set(M.ancestors(importer))
        required_all, tolerated_all = set(), set()
        for site in sites:
            req, tol = site_targets(site, importer, scanned)
            required_all |= req
            tolerated_all |= tol
            missing = req - actual
            viols = []
            if missing:
                fld = "+".join(sorted({s[1] for s in site["path"]})) or "module-level"
                viols.append({
                    "sig": f"C02/missing-edge/path-fields={fld}/form={form_label(site)}",
                    "key": {"field": fld, "form": form_label(site)},
                    "detail": f"{importer}: '{site_source(site)}' at {path_label(site['path'])} gives no edge to {sorted(missing)}",
                })
            nontrivial = bool(site["path"]) or form_label(site) != "plain"
            out.append((rel, site, viols, nontrivial))
        extra = actual - required_all - tolerated_all - anc
        if extra:
            out.append((rel, None, [{"sig": "C02/unaccounted-edge", "key": {},
                                     "detail": f"{importer} -> {sorted(extra)} although no import statement in the file names them; sites={[site_source(s) for s in sites]}"}], True))
        # importer must not import modules outside 'scanned' when externals are excluded (C10's business) - ignored here
    return out


# ------------------------------------------------------------------------------ exhaustive

N_PER_FILE = 28


def support_files(n: int) -> dict:
    f = {"__init__.py": "", "t/__init__.py": "thing = 1\nthing2 = 2\n", "a/__init__.py": "", "a/sub/__init__.py": ""}
    for k in range(n):
        f[f"t/m{k}.py"] = "thing = 1\n"
        f[f"a/s{k}.py"] = "thing = 1\n"
        f[f"a/sub/u{k}.py"] = ""
        f[f"b{k}.py"] = ""
    return f


def forms_for(k: int, level_extra: int, module_level: bool) -> list:
    """All import forms for site index k. level_extra = 0 for files in proj/a, 1 for proj/a/pkN/__init__.py."""
    d1, d2 = "." * (1 + level_extra), "." * (2 + level_extra)
    forms = [
        ("plain", {"kind": "import", "names": [(f"proj.t.m{k}", None)]}),
        ("aliased", {"kind": "import", "names": [(f"proj.t.m{k}", "x")]}),
        ("multi", {"kind": "import", "names": [(f"proj.t.m{k}", None), (f"proj.a.s{k}", "y")]}),
        ("package", {"kind": "import", "names": [("proj.t", None)]}),
        ("from-name", {"kind": "from", "level": 0, "module": f"proj.t.m{k}", "names": [("thing", None)]}),
        ("from-submodule", {"kind": "from", "level": 0, "module": "proj.t", "names": [(f"m{k}", None)]}),
        ("from-mixed", {"kind": "from", "level": 0, "module": "proj.t", "names": [(f"m{k}", "y"), ("thing2", None)]}),
        ("from-mixed-name-first", {"kind": "from", "level": 0, "module": "proj.t", "names": [("thing2", None), (f"m{k}", None)]}),
        ("from-two-submodules", {"kind": "from", "level": 0, "module": "proj.t", "names": [(f"m{k}", None), (f"m{(k + 1) % N_PER_FILE}", "z")]}),
        ("rel2-mixed-name-first", {"kind": "from", "level": len(d2), "module": "t", "names": [("thing", "th"), (f"m{k}", None)]}),
        ("rel2-mixed-module-first", {"kind": "from", "level": len(d2), "module": "t", "names": [(f"m{k}", None), ("thing", "th")]}),
        ("rel2-two-submodules", {"kind": "from", "level": len(d2), "module": "t", "names": [(f"m{k}", None), (f"m{(k + 1) % N_PER_FILE}", "z")]}),
        ("from-root-submodule", {"kind": "from", "level": 0, "module": "proj", "names": [(f"b{k}", None)]}),
        ("rel1-module", {"kind": "from", "level": len(d1), "module": None, "names": [(f"s{k}", None)]}),
        ("rel1-from-name", {"kind": "from", "level": len(d1), "module": f"s{k}", "names": [("thing", None)]}),
        ("rel1-subpackage-module", {"kind": "from", "level": len(d1), "module": "sub", "names": [(f"u{k}", None)]}),
        ("rel2-module", {"kind": "from", "level": len(d2), "module": "t", "names": [(f"m{k}", None)]}),
        ("rel2-from-name", {"kind": "from", "level": len(d2), "module": f"t.m{k}", "names": [("thing", None)]}),
        ("rel2-root-module", {"kind": "from", "level": len(d2), "module": None, "names": [(f"b{k}", None)]}),
        ("non-module-name", {"kind": "from", "level": 0, "module": "proj.t", "names": [("thing", None)]}),
        ("external", {"kind": "import", "names": [("os.path", None), ("proj_x.m0", None)]}),
    ]
    if module_level:
        forms.append(("star", {"kind": "from", "level": 0, "module": f"proj.t.m{k}", "names": [("*", None)]}))
    return forms


FORM_NAMES = [f for f, _ in forms_for(0, 0, True)]
THOROUGH_DEPTH3_FORMS = {"plain", "from-submodule", "rel1-module", "rel2-module", "multi"}


def all_site_templates(max_depth: int, depth3_forms=None):
    """Yield (path, form_name) for every nesting path up to max_depth and every form."""
    for depth in range(0, max_depth + 1):
        for path in product(A.SLOTS, repeat=depth):
            for fname in FORM_NAMES:
                if fname == "star" and depth > 0:
                    continue
                if depth == 3 and depth3_forms is not None and fname not in depth3_forms:
                    continue
                yield list(path), fname


def exh_shard(arg, stt, deadline) -> None:
    shard, nshards, max_depth = arg[:3]
    old_grammar = len(arg) > 3 and arg[3]
    templates = [t for t in all_site_templates(max_depth, THOROUGH_DEPTH3_FORMS)
                 if not (old_grammar and any(s[0] in OLD_GRAMMAR_CLASSES for s in t[0]))]
    templates = [t for i, t in enumerate(templates) if i % nshards == shard]
    support = support_files(N_PER_FILE)
    files_per_project = 24
    # pack N_PER_FILE sites per file with distinct target indices; alternate plain files and __init__ files
    chunks = [templates[i: i + N_PER_FILE] for i in range(0, len(templates), N_PER_FILE)]
    for p0 in range(0, len(chunks), files_per_project):
        if time.time() > deadline:
            stt.truncated = True
            return
        importers = {}
        for fi, chunk in enumerate(chunks[p0: p0 + files_per_project]):
            init = fi % 3 == 2
            rel = f"a/pk{fi}/__init__.py" if init else f"a/f{fi}.py"
            sites = []
            for k, (path, fname) in enumerate(chunk):
                forms = dict(forms_for(k, 1 if init else 0, not path))
                site = dict(forms[fname], path=[list(s) for s in path], form=fname)
                sites.append(site)
            importers[rel] = sites
        for rel, site, viols, nontrivial in evaluate_project("proj", support, importers, old_grammar=old_grammar):
            if site is None:
                res = {"violations": viols, "nontrivial": False, "labels": ["file-level"]}
                spec = {"type": "exh-file", "file": rel, "sites": importers.get(rel), "old_grammar": old_grammar}
                if viols:
                    stt.record(spec, res, enumerated=True, sample=False)
                continue
            depth = len(site["path"])
            res = {"violations": viols, "nontrivial": nontrivial,
                   "labels": [f"form={site['form']}", f"depth={depth}", f"field={last_field(site['path'])}",
                              "in-init" if rel.endswith("__init__.py") else "in-file"]}
            spec = {"type": "site", "init": rel.endswith("__init__.py"), "site": site, "old_grammar": old_grammar}
            if old_grammar:
                res["labels"].append("interpreter-without-match-statements")
            stt.record(spec, res, enumerated=True, sample=(depth == 2 and site["form"] == "from-submodule" and len(stt.samples) < 4))


# ------------------------------------------------------------------------------ random


@st.composite
def projects(draw):
    # package tree
    pk_names = ["a", "ab", "b", "sub", "t"]
    dirs = [""]
    for _ in range(draw(st.integers(1, 5))):
        parent = draw(st.sampled_from(dirs))
        if parent.count("/") >= 2 and parent:
            continue
        d = (parent + "/" if parent else "") + draw(st.sampled_from(pk_names))
        if d not in dirs:
            dirs.append(d)
    files = {}
    for d in dirs:
        if d == "" or draw(st.integers(0, 3)) > 0:
            files[(d + "/" if d else "") + "__init__.py"] = ""
        for n in draw(st.lists(st.sampled_from(["m", "m2", "util", "a_b", "x"]), min_size=0 if d else 1, max_size=3, unique=True)):
            if (d + "/" if d else "") + n not in dirs:
                files[(d + "/" if d else "") + n + ".py"] = "thing = 1\n"
    if not any(f.endswith(".py") and not f.endswith("__init__.py") for f in files):
        files["m.py"] = "thing = 1\n"
    scanned = sorted(modules_of(files, [d for d in dirs if d], "proj"))
    importer_files = draw(st.lists(st.sampled_from(sorted(files)), min_size=1, max_size=3, unique=True))
    importers = {}
    for rel in importer_files:
        importer = ".".join(["proj"] + rel[:-3].split("/"))
        pkg = importer_package(importer).split(".")
        sites = []
        for _ in range(draw(st.integers(1, 6))):
            depth = draw(st.integers(0, 3))
            path = [list(draw(st.sampled_from(A.SLOTS))) for _ in range(depth)]
            kind = draw(st.sampled_from(["import", "from-abs", "from-rel", "from-rel", "external"]))
            target = draw(st.sampled_from(scanned))
            if kind == "import":
                names = [(target, draw(st.sampled_from([None, "al"])))]
                if draw(st.booleans()):
                    names.append((draw(st.sampled_from(scanned + ["os", "proj_x.y", "proj.nonexistent"])), None))
                site = {"kind": "import", "names": names, "form": "plain" if len(names) == 1 and not names[0][1] else "multi/aliased"}
            elif kind == "from-abs":
                if "." in target and draw(st.booleans()):
                    base, last = target.rsplit(".", 1)
                    names = [(last, draw(st.sampled_from([None, "al"])))]
                    if draw(st.booleans()):
                        names.append(("thing", None))
                    if draw(st.booleans()):
                        names.reverse()
                    site = {"kind": "from", "level": 0, "module": base, "names": names, "form": "from-submodule"}
                else:
                    star = depth == 0 and draw(st.integers(0, 4)) == 0
                    site = {"kind": "from", "level": 0, "module": target, "names": [("*" if star else "thing", None)],
                            "form": "star" if star else "from-name"}
                    if star:
                        path = []
            elif kind == "from-rel":
                if draw(st.integers(0, 7)) == 0:
                    # more dots than the importing file has packages below the scanned root (a guarded import in a package that
                    # can also live inside a bigger one): names nothing internal - no edge, and the other statements keep theirs
                    sites.append({"kind": "from", "level": len(pkg) + draw(st.integers(1, 2)), "module": draw(st.sampled_from([None, "shared", "a"])),
                                  "names": [(draw(st.sampled_from(["thing", "a", "m"])), None)], "form": "rel-above-root", "path": path})
                    continue
                level = draw(st.integers(1, len(pkg)))
                base_parts = pkg[: len(pkg) - (level - 1)]
                base = ".".join(base_parts)
                below = [m for m in scanned if M.is_strict_desc(m, base)]
                if below:
                    t = draw(st.sampled_from(below))
                    rest = t[len(base) + 1:].split(".")
                    if draw(st.booleans()) or len(rest) == 1:
                        # from <dots><rest[:-1]> import <last>
                        site = {"kind": "from", "level": level, "module": ".".join(rest[:-1]) or None,
                                "names": [(rest[-1], None)], "form": f"rel{level}-module"}
                    else:
                        site = {"kind": "from", "level": level, "module": ".".join(rest), "names": [("thing", None)],
                                "form": f"rel{level}-from-name"}
                else:
                    site = {"kind": "from", "level": level, "module": None, "names": [("thing", None)], "form": f"rel{level}-name"}
            else:
                site = {"kind": draw(st.sampled_from(["import"])), "names": [(draw(st.sampled_from(["os", "os.path", "proj_x", "projx.y", "a.m"])), None)],
                        "form": "external"}
            site["path"] = path
            sites.append(site)
        importers[rel] = sites
    support = {k: v for k, v in files.items() if k not in importers}
    spec = {"type": "project", "support": support, "importers": importers, "dirs": [d for d in dirs if d]}
    if draw(st.integers(0, 4)) == 0:
        # one importing file is stored with a UTF-8 byte order mark or with a PEP 263 coding cookie
        spec["encodings"] = {draw(st.sampled_from(sorted(importers))): draw(st.sampled_from(["bom", "latin1-cookie", "utf8-cookie"]))}
    return spec


def check_case(spec: dict) -> dict:
    if spec["type"] == "site":
        site = spec["site"]
        rel = "a/pk0/__init__.py" if spec.get("init") else "a/f0.py"
        results = evaluate_project("proj", support_files(N_PER_FILE), {rel: [site]}, old_grammar=spec.get("old_grammar", False))
    else:
        if spec["type"] == "exh-file":
            results = evaluate_project("proj", support_files(N_PER_FILE), {spec["file"]: spec["sites"]}, old_grammar=spec.get("old_grammar", False))
        else:
            results = evaluate_project("proj", spec["support"], spec["importers"], dirs=spec.get("dirs", ()), encodings=spec.get("encodings"))
    viols, nontrivial, labels = [], False, []
    for rel, site, v, nt in results:
        viols += v
        nontrivial |= nt
        if site is not None:
            labels += [f"form={site.get('form')}", f"depth={len(site['path'])}", f"field={last_field(site['path'])}"]
    if spec.get("encodings"):
        labels += ["source-encoding=" + e for e in spec["encodings"].values()]
    return {"violations": viols, "nontrivial": nontrivial, "labels": sorted(set(labels))}


def strategy(tier):
    return projects()


def run(ctx) -> None:
    quick = ctx.tier == "quick"
    depth = 2 if quick else 3
    nsh = 16 if quick else 64
    n_slots = len(A.SLOTS)
    ctx.extra["statement_list_slots"] = [A.slot_name(s) for s in A.SLOTS]
    ctx.exhaustive("all-paths-x-forms", MOD, "exh_shard", [(i, nsh, depth) for i in range(nsh)],
                   f"{n_slots} statement-list slots; every nesting path of depth <= {depth} x {len(FORM_NAMES)} import forms"
                   + ("" if quick else f" (depth 3 restricted to forms {sorted(THOROUGH_DEPTH3_FORMS)})"))
    # the statement classes of match statements and except* do not exist on every supported interpreter (requires-python
    # >= 3.9): the same paths without those two statements, scanned by a process that does not have the classes
    ctx.exhaustive("paths-x-forms-on-an-interpreter-without-match-statements", MOD, "exh_shard",
                   [(i, 2 if quick else 8, 1 if quick else 2, True) for i in range(2 if quick else 8)],
                   f"every nesting path of depth <= {1 if quick else 2} that does not use match / except* x {len(FORM_NAMES)} import forms, "
                   "scanned in a child interpreter whose ast module lacks the classes added in Python 3.10-3.12")
    ctx.random("random-projects", MOD, "strategy", "check_case", 4000 if quick else 150000)
    # coverage-guided arm over the same strategy and oracle (atheris; skipped when it is not installed)
    ctx.fuzz("coverage-guided-projects", "strategy", "check_case", runs=400 if ctx.tier == "quick" else 20000, procs=4 if ctx.tier == "quick" else 12)
