"""C06 - PlantUML diagrams parse to exactly their components, aliases and arrows."""
from __future__ import annotations

import os
from itertools import product
from pathlib import Path

from hypothesis import strategies as st

from pytestarch.diagram_extension.diagram_parser import PumlParser
from pytestarch.diagram_extension.exceptions import PumlParsingError

from .. import rulespace as RS
from ..drive import write_puml

ID = "C06"
MOD = __name__

RULE_TEXT = (
    "Exhaustive part: two components (identifier and dotted names) x every declaration form (none, [n], component n, "
    "component [n], [n] as A, component [n] as A, component n as A) per component x every arrow form (6) x every reference form per "
    "endpoint (bracketed, bare, alias) x declaration-before/after-use, plus the three-line alias/name mixtures. Random "
    "part: Hypothesis relation over 1-8 components (identifier, dotted, or blank-containing bracketed names with alias), "
    "random declaration, reference and arrow forms, random line order, 1-3 blanks between tokens (0-3 around arrows), blanks and tabs in front of and behind lines, identifiers with combining marks / a middle dot, arbitrary text (also lines that look like declarations and arrows, and random unicode) outside the "
    "tags; negative cases with a tag removed must raise PumlParsingError; a quarter of the random cases and one exhaustive "
    "family are sequences of 2-3 diagrams parsed one after the other (fresh parser each) in which an alias token of one "
    "diagram is a component name of another. A fixed family of diagrams with long component names (24-64 digits / non-ASCII letters) is parsed in a child interpreter under a 30 s limit (a parse that is still running then is a violation). Oracle: the generated relation itself "
    "(component set and dependor->dependees map). Non-trivial: a component is referenced by alias in one line and by "
    "name in another, or a dotted name occurs, or >= 2 arrow forms are used."
)
ASSUMPTIONS = [
    "one diagram block per file (text outside it may mention a tag, but contains no second start/end pair)",
    "alias tokens are disjoint from the component names of the same diagram",
    "names containing blanks are declared with an alias and referenced through it (as in the repository's fixtures)",
]

ARROWS = ["-->", "->", "<--", "<-", "-uses->", "<-uses-"]
DECLS = ["none", "br", "comp", "comp_br", "br_as", "comp_br_as", "comp_as"]


def render_decl(name, form, alias, sp=" "):
    if form == "br":
        return f"[{name}]"
    if form == "comp":
        return f"component{sp}{name}"
    if form == "comp_br":
        return f"component{sp}[{name}]"
    if form == "br_as":
        return f"[{name}]{sp}as{sp}{alias}"
    if form == "comp_br_as":
        return f"component{sp}[{name}]{sp}as{sp}{alias}"
    if form == "comp_as":
        return f"component{sp}{name}{sp}as{sp}{alias}"
    return None


def render_ref(name, alias, ref):
    if ref == "alias":
        return alias
    if ref == "br":
        return f"[{name}]"
    return name


def render_arrow(a_txt, b_txt, arrow, sp1=" ", sp2=" "):
    """a depends on b."""
    if arrow.startswith("<"):
        return f"{b_txt}{sp1}{arrow}{sp2}{a_txt}"
    return f"{a_txt}{sp1}{arrow}{sp2}{b_txt}"


def render(spec) -> tuple:
    """spec: components [{name, decl, alias}], arrows [{a, b, arrow, ra, rb, sp}], order (permutation of line idx),
    pre, post, drop ('start'|'end'|None)."""
    comps = spec["components"]
    lines = []
    for c in comps:
        d = render_decl(c["name"], c["decl"], c.get("alias"), " " * c.get("sp", 1))
        if d:
            lines.append(d)
    for ar in spec["arrows"]:
        a, b = comps[ar["a"]], comps[ar["b"]]
        lines.append(render_arrow(render_ref(a["name"], a.get("alias"), ar["ra"]),
                                  render_ref(b["name"], b.get("alias"), ar["rb"]), ar["arrow"],
                                  " " * ar.get("sp1", 1), " " * ar.get("sp2", 1)))
    order = spec.get("order") or list(range(len(lines)))
    lines = [lines[i] for i in order if i < len(lines)] + [l for i, l in enumerate(lines) if i not in order]
    # blanks / tabs in front of and behind a line are not part of it
    pads = spec.get("pads") or []
    lines = [(pads[i % len(pads)][0] + l + pads[i % len(pads)][1]) if pads else l for i, l in enumerate(lines)]
    body = "\n".join(lines)
    start = "" if spec.get("drop") == "start" else "@startuml\n"
    end = "" if spec.get("drop") == "end" else "\n@enduml"
    text = f"{spec.get('pre', '')}{start}{body}{end}{spec.get('post', '')}"
    referenced = set()
    deps: dict = {}
    for ar in spec["arrows"]:
        a, b = comps[ar["a"]]["name"], comps[ar["b"]]["name"]
        deps.setdefault(a, set()).add(b)
        referenced |= {a, b}
    names = {c["name"] for c in comps if c["decl"] != "none"} | referenced
    return text, names, deps


def check_case(spec: dict) -> dict:
    """One diagram, or (spec['then']) a sequence of diagrams parsed one after the other in the same process, each by a
    fresh PumlParser and each judged on its own: anything a parse remembers shows up as a wrong result of a later one."""
    res = check_one(spec)
    for i, nxt in enumerate(spec.get("then", [])):
        r = check_one(nxt)
        res["violations"] += [dict(v, sig=v["sig"] + "/after-earlier-parse", detail=f"diagram #{i + 2} of a sequence: " + str(v["detail"]))
                              for v in r["violations"]]
        res["nontrivial"] = res["nontrivial"] or r["nontrivial"]
    if spec.get("then"):
        res["labels"] = res["labels"] + ["sequence-of-diagrams"]
        toks = {c["alias"] for c in spec["components"] if c.get("alias")}
        if any(c["name"] in toks for nxt in spec["then"] for c in nxt["components"]):
            res["labels"].append("earlier-alias-token-is-later-component-name")
    return res


def parse_in_child(path: str, timeout: float) -> tuple:
    """The parse in a fresh interpreter (pbt/puml_child.py) that is given `timeout` seconds - four orders of magnitude more
    than a parse of such a file takes. ('did-not-finish', seconds) when it is still running then."""
    import json
    import subprocess
    import sys

    here = Path(__file__).resolve().parents[2]
    repo = os.environ.get("VERIF_REPO", "/repo")
    env = dict(os.environ, PYTHONHASHSEED="0", PYTHONPATH=os.pathsep.join([str(Path(repo) / "src"), str(here), str(here / ".deps")]))
    try:
        p = subprocess.run([sys.executable, "-m", "pbt.puml_child", path], capture_output=True, text=True, env=env, cwd=str(here), timeout=timeout)
    except subprocess.TimeoutExpired:
        return ("did-not-finish", timeout)
    try:
        out = json.loads(p.stdout.strip().splitlines()[-1])
    except Exception:  # noqa: BLE001
        raise RuntimeError(f"puml child failed: {p.stderr[-400:]}")  # harness error, not a verdict
    if "ok" in out:
        return ("ok", set(out["ok"][0]), {k: set(v) for k, v in out["ok"][1].items()})
    return ("parse-error", out["parse-error"]) if "parse-error" in out else ("other-error", out["other-error"])


def check_one(spec: dict) -> dict:
    text, names, deps = render(spec)
    if spec.get("crlf"):
        text = text.replace("\n", "\r\n")  # the file as an editor on Windows stores it
    path = write_puml(text)
    try:
        if spec.get("child_timeout"):
            got = parse_in_child(path, float(os.environ.get("VERIF_C06_CHILD_TIMEOUT", spec["child_timeout"])))
        else:
            try:
                parsed = PumlParser().parse(Path(path))
                got = ("ok", set(parsed.all_modules), {k: set(v) for k, v in parsed.dependencies.items()})
            except PumlParsingError as e:
                got = ("parse-error", str(e))
            except Exception as e:  # noqa: BLE001
                got = ("other-error", f"{type(e).__name__}: {e}")
    finally:
        os.unlink(path)
    viols = []
    if got[0] == "did-not-finish":
        longest = max(len(c["name"]) for c in spec["components"])
        return {"violations": [{"sig": "C06/parse-does-not-finish/long-name", "key": {},
                                "detail": f"parsing was still running after {got[1]} s (longest component name: {longest} characters); text={text!r}"}],
                "nontrivial": True, "labels": ["long-names", "did-not-finish"]}
    comps = spec["components"]
    dotted = any("." in c["name"] for c in comps)
    forms = {ar["arrow"] for ar in spec["arrows"]}
    refs_by_comp: dict = {}
    for ar in spec["arrows"]:
        refs_by_comp.setdefault(ar["a"], set()).add(ar["ra"])
        refs_by_comp.setdefault(ar["b"], set()).add(ar["rb"])
    mixed = any("alias" in r and len(r) > 1 for r in refs_by_comp.values())
    feat = "dotted" if dotted else ("alias+name" if mixed else "plain")
    if spec.get("drop"):
        if got[0] != "parse-error":
            viols.append({"sig": f"C06/missing-tag-not-rejected/{spec['drop']}", "key": {"drop": spec["drop"]},
                          "detail": f"file without {spec['drop']} tag gave {got}; text={text!r}"})
        return {"violations": viols, "nontrivial": True, "labels": ["negative", f"drop={spec['drop']}"]}
    if got[0] != "ok":
        viols.append({"sig": f"C06/valid-diagram-rejected/{feat}", "key": {"feature": feat}, "detail": f"{got}; text={text!r}"})
    else:
        _, gnames, gdeps = got
        if gnames != names:
            cls = "lost" if names - gnames else "extra"
            viols.append({"sig": f"C06/components-{cls}/{feat}", "key": {"feature": feat},
                          "detail": f"components {sorted(gnames)} != expected {sorted(names)}; text={text!r}"})
        if gdeps != deps:
            lost = {(a, b) for a, bs in deps.items() for b in bs} - {(a, b) for a, bs in gdeps.items() for b in bs}
            cls = "lost" if lost else "extra"
            viols.append({"sig": f"C06/arrows-{cls}/{feat}", "key": {"feature": feat},
                          "detail": f"dependencies {gdeps} != expected {deps}; text={text!r}"})
    labels = [f"feature={feat}", f"arrowforms={min(len(forms), 3)}", f"components={min(len(comps), 4)}"]
    if any(ar["a"] == ar["b"] for ar in spec["arrows"]):
        labels.append("self-arrow")
    if spec.get("crlf"):
        labels.append("crlf-line-ends")
    return {"violations": viols, "nontrivial": dotted or mixed or len(forms) >= 2, "labels": labels}


# ------------------------------------------------------------------------------ exhaustive


def exh_shard(arg, stt, deadline) -> None:
    n1, n2, shard, nshards = arg
    i = 0
    refs = ["br", "bare", "alias"]
    for d1, d2, arrow, ra, rb, decl_first in product(DECLS, DECLS, ARROWS, refs, refs, (True, False)):
        i += 1
        if i % nshards != shard:
            continue
        if (ra == "alias" and "as" not in d1) or (rb == "alias" and "as" not in d2):
            continue
        comps = [{"name": n1, "decl": d1, "alias": "A1"}, {"name": n2, "decl": d2, "alias": "A2"}]
        nl = sum(1 for c in comps if c["decl"] != "none")
        order = list(range(nl + 1)) if decl_first else [nl] + list(range(nl))
        spec = {"components": comps, "arrows": [{"a": 0, "b": 1, "arrow": arrow, "ra": ra, "rb": rb}], "order": order}
        stt.record(spec, check_case(spec), enumerated=True, sample=(i % 211 == 1))
        # the same diagram with no blank on one or both sides of the arrow, and with blanks / a tab around every line
        for sp1, sp2, pad in ((0, 0, None), (0, 1, None), (1, 0, None), (1, 1, ["", " "]), (1, 1, ["  ", ""]), (0, 0, ["\t", "  "])):
            v = dict(spec, arrows=[dict(spec["arrows"][0], sp1=sp1, sp2=sp2)])
            if pad:
                v["pads"] = [pad]
            r = check_case(v)
            r["labels"] = r["labels"] + ["no-blank-at-arrow" if 0 in (sp1, sp2) else "blanks-around-lines"]
            stt.record(v, r, enumerated=True, sample=(i % 809 == 1))
        # second arrow: same dependor referenced the other way, to a third component
        for ra2 in refs:
            if ra2 == ra or (ra2 == "alias" and "as" not in d1):
                continue
            comps3 = comps + [{"name": "third", "decl": "none"}]
            spec3 = {"components": comps3, "order": order + [nl + 1],
                     "arrows": [{"a": 0, "b": 1, "arrow": arrow, "ra": ra, "rb": rb},
                                {"a": 0, "b": 2, "arrow": "-->", "ra": ra2, "rb": "br"}]}
            stt.record(spec3, check_case(spec3), enumerated=True, sample=(i % 509 == 1))


LONG_KINDS = {
    "digits": lambda n: "v" + "1" * n,  # e.g. a version or date stamp in a module name
    "non-ascii-letters": lambda n: ("\u044f\u0431\u043b\u043e\u043a\u043e" * n)[:n],
    "dotted-mixed": lambda n: "\u043f\u0430\u043a\u0435\u0442.\u043c\u043e\u0434\u0443\u043b\u044c_" + "7" * max(1, n - 13),
    "ascii-letters": lambda n: ("module_name_" * n)[:n],
}


def long_name_specs():
    """Diagrams in the documented forms whose component names are long (24-64 characters): digits, non-ASCII letters, both.
    Each is parsed in a child interpreter with a generous time limit (the one place where the wall clock is a signal: a parse
    of such a file takes well under a millisecond, the limit is 30 s)."""
    out = []
    for kind, mk in LONG_KINDS.items():
        for n in (24, 32, 64):
            long1, long2 = mk(n), mk(n - 1) + "z"
            comps = [{"name": long1, "decl": "br_as", "alias": "A1"}, {"name": long2, "decl": "comp_br", "alias": None},
                     {"name": "core", "decl": "none", "alias": None}]
            arrows = [{"a": 0, "b": 1, "arrow": "-->", "ra": "alias", "rb": "br"}, {"a": 2, "b": 0, "arrow": "<-uses-", "ra": "bare", "rb": "br"},
                      {"a": 1, "b": 2, "arrow": "<-", "ra": "bare", "rb": "bare"}]
            out.append({"components": comps, "arrows": arrows, "order": [0, 1, 2, 3, 4], "child_timeout": 30, "long_kind": kind})
            out.append({"components": comps[:2], "arrows": arrows[:1], "order": [2, 1, 0], "child_timeout": 30, "long_kind": kind})
    return out


def long_shard(arg, stt, deadline) -> None:
    shard, nshards = arg
    for i, spec in enumerate(long_name_specs()):
        if i % nshards == shard:
            r = check_case(spec)
            r["labels"] = r["labels"] + ["long-names", f"long={spec['long_kind']}"]
            stt.record(spec, r, enumerated=True, sample=(i % 5 == 0))


def seq_shard(arg, stt, deadline) -> None:
    """Two diagrams parsed in sequence: the first declares an alias, the second uses that token as a component name
    (every declaration form / reference form), and the reverse order."""
    shard, nshards = arg
    i = 0
    for d1, d2, ref2, arrow, rev in product(["br_as", "comp_br_as"], DECLS[:4], ["br", "bare"], ARROWS, (False, True)):
        i += 1
        if i % nshards != shard:
            continue
        first = {"components": [{"name": "persistence", "decl": d1, "alias": "db"}, {"name": "core", "decl": "br"}],
                 "arrows": [{"a": 1, "b": 0, "arrow": arrow, "ra": "br", "rb": "alias"}]}
        second = {"components": [{"name": "db", "decl": d2}, {"name": "x", "decl": "none"}],
                  "arrows": [{"a": 0, "b": 1, "arrow": arrow, "ra": ref2, "rb": "br"}]}
        a, b = (second, first) if rev else (first, second)
        spec = dict(a, then=[b, a])
        stt.record(spec, check_case(spec), enumerated=True, sample=(i % 37 == 1))


# ------------------------------------------------------------------------------ random

IDENTS = ["a", "b", "ab", "core", "util", "x1", "my_comp", "A", "Bee", "svc2"]
# identifiers (hence module names) with characters that are not 'word' characters for the re module: combining marks,
# the middle dot
UNICODE_IDENTS = ["col\u00b7legi", "\u0939\u093f\u0902\u0926\u0940", "\u0e02\u0e49\u0e2d\u0e21\u0e39\u0e25", "na\u00efve", "\u6a21\u5757", "e\u0301te"]
assert all(x.isidentifier() for x in UNICODE_IDENTS)
DOTTED = ["src.a", "src.a.b", "src.ab", "pkg.core.util", "src.A.fileA", "p.q", "src.B", "src.b.c2", "x.y.z"]
BLANKED = ["Module B", "my comp 2"]
ALIASES = ["AL1", "al2", "M_B", "zz", "Q9", "al_3", "W", "k2"]
NOISE = ["", "some text\n", "title: foo\nbar baz\n", "' comment\n\n"]


OUTSIDE_LINES = ["[ghost] --> [ghost2]", "component ghost3", "[g4] as G4", "G4 <-- [g5]", "' a comment", "title Something",
                 "skinparam componentStyle uml2", "", "  ", "x -> y", "@start", "enduml", "@ startuml", "[a] --> [b]"]


@st.composite
def outside_text(draw):
    """Text before @startuml / after @enduml: ignored whatever it is (it may look like diagram lines), as long as it does
    not contain the tags themselves."""
    k = draw(st.integers(0, 3))
    if k == 0:
        return draw(st.sampled_from(NOISE))
    if k == 1:
        return "\n".join(draw(st.lists(st.sampled_from(OUTSIDE_LINES), min_size=1, max_size=4))) + "\n"
    txt = draw(st.text(alphabet=st.characters(blacklist_categories=("Cs",), blacklist_characters="\r\x0b\x0c\x1c\x1d\x1e\x85\u2028\u2029"), max_size=30))
    if "@startuml" in txt or "@enduml" in txt:
        txt = ""
    return txt + "\n"


@st.composite
def diagrams(draw, shared_tokens=False):
    n = draw(st.integers(1, 8))
    style = draw(st.sampled_from(["ident", "dotted", "mixed"]))
    pool = IDENTS if style == "ident" else (DOTTED if style == "dotted" else IDENTS + DOTTED + BLANKED)
    if draw(st.integers(0, 3)) == 0:
        pool = pool + UNICODE_IDENTS + ["src." + UNICODE_IDENTS[0], UNICODE_IDENTS[1] + ".core"]
    if shared_tokens:
        # component names and alias tokens come from one pool (disjoint within a diagram, not across diagrams)
        pool = pool + ALIASES[:4]
    names = draw(st.lists(st.sampled_from(pool), min_size=n, max_size=n, unique=True))
    aliases = draw(RS.shuffled([a for a in ALIASES + (IDENTS[:4] if shared_tokens else []) if a not in names]))
    aliases = list(aliases) + [f"sp{i}" for i in range(8)]
    comps = []
    for i, nm in enumerate(names):
        if " " in nm:
            decl = draw(st.sampled_from(["br_as", "comp_br_as"]))
        else:
            decl = draw(st.sampled_from(DECLS))
        comps.append({"name": nm, "decl": decl, "alias": aliases[i] if "as" in decl else None, "sp": draw(st.integers(1, 3))})
    arrows = []
    # a quarter of the diagrams may draw an arrow from a component to itself (the relation drawn is then reflexive there;
    # it is written like any other arrow, so it belongs to the dependor->dependee relation the parser has to return)
    self_arrows = draw(st.integers(0, 3)) == 0
    if n >= 2 or self_arrows:
        pairs = draw(st.lists(st.tuples(st.integers(0, n - 1), st.integers(0, n - 1)), min_size=0, max_size=12))
        for a, b in pairs:
            if a == b and not self_arrows:
                continue

            def ref(c):
                opts = ["alias"] if " " in c["name"] else (["br", "bare"] + (["alias"] if c["alias"] else []))
                return draw(st.sampled_from(opts))

            arrows.append({"a": a, "b": b, "arrow": draw(st.sampled_from(ARROWS)), "ra": ref(comps[a]), "rb": ref(comps[b]),
                           "sp1": draw(st.integers(0, 3)), "sp2": draw(st.integers(0, 3))})
    # a component without declaration must be referenced, otherwise it is not part of the diagram: declare it
    used = {x for ar in arrows for x in (ar["a"], ar["b"])}
    for i, c in enumerate(comps):
        if c["decl"] == "none" and i not in used:
            c["decl"] = "br"
    nlines = sum(1 for c in comps if c["decl"] != "none") + len(arrows)
    order = list(draw(RS.shuffled(list(range(nlines)))))
    drop = draw(st.sampled_from([None] * 9 + ["start", "end"]))
    pre, post = draw(outside_text()), "\n" + draw(outside_text())
    if drop is None and draw(st.integers(0, 5)) == 0:
        # prose around the diagram that mentions a tag: before the start tag it may mention the start tag, after the end
        # tag the end tag - it stays text outside the tags
        pre = "The diagram begins after @startuml below.\n" + pre
    if drop is None and draw(st.integers(0, 5)) == 0:
        # prose in front of the diagram that mentions the end tag, or both tags in their order (round 9): still text outside
        pre = draw(st.sampled_from(["Every diagram is closed by an @enduml line.\n", "A diagram stands between @startuml and @enduml, like the one below.\n",
                                    "@enduml\n"])) + pre
    if drop is None and draw(st.integers(0, 5)) == 0:
        post = post + "old draft:\n[ghost] --> [ghost9]\ncomponent ghost7\n(closed by the @enduml tag)\n"
    out = {"components": comps, "arrows": arrows, "order": order, "pre": pre, "post": post, "drop": drop}
    if draw(st.integers(0, 5)) == 0:
        out["crlf"] = True
    if draw(st.integers(0, 2)) == 0:
        blank = st.sampled_from(["", "", " ", "  ", "\t", " \t"])
        out["pads"] = [[draw(blank), draw(blank)] for _ in range(draw(st.integers(1, 4)))]
    return out


@st.composite
def cases(draw):
    if draw(st.integers(0, 3)) > 0:
        return draw(diagrams())
    first = draw(diagrams(shared_tokens=True))
    return dict(first, then=draw(st.lists(diagrams(shared_tokens=True), min_size=1, max_size=2)))


def strategy(tier):
    return cases()


def run(ctx) -> None:
    nsh = 16
    shards = [(n1, n2, i, nsh) for (n1, n2) in (("compA", "compB"), ("src.A.fileA", "src.B")) for i in range(nsh)]
    ctx.exhaustive("two-component-forms", MOD, "exh_shard", shards,
                   "2 name styles x 6x6 declaration forms x 6 arrow forms x 3x3 reference forms x declaration before/after use, plus a second arrow referring to the dependor in another form")
    ctx.exhaustive("alias-token-reused-as-component-in-next-diagram", MOD, "seq_shard", [(i, 8) for i in range(8)],
                   "2 alias declaration forms x 4 declaration forms x 2 reference forms x 6 arrow forms x both orders, three parses per case")
    ctx.exhaustive("long-component-names", MOD, "long_shard", [(i, 8) for i in range(8)],
                   "4 kinds of long component names (digits, non-ASCII letters, dotted mixed, ASCII letters) x lengths 24/32/64 x 2 diagram shapes, each parsed in a child interpreter with a 30 s limit")
    ctx.random("random-diagrams", MOD, "strategy", "check_case", 6000 if ctx.tier == "quick" else 400000)
    # coverage-guided arm over the same strategy and oracle (atheris; skipped when it is not installed)
    ctx.fuzz("coverage-guided-diagrams", "strategy", "check_case", runs=1500 if ctx.tier == "quick" else 40000, procs=4 if ctx.tier == "quick" else 12)
