"""C11 - regex, partial-name and batched specifications equal their expansions (metamorphic: compact rule vs
expanded rule on the same architecture)."""
from __future__ import annotations

import re

from hypothesis import strategies as st

from .. import models as M
from .. import rulespace as RS
from ..drive import eval_rule, make_evaluable, reuse_aware, warmup

ID = "C11"
MOD = __name__

RULE_TEXT = (
    "Exhaustive part: tree T4 x every import relation (quick: <= 4 edges, thorough: all 2^11) x a fixed list of regexes "
    "over the tree's names (anchored, bare prefix, alternation, character class, suffix, no-match) on the subject or the "
    "object side x 3 opposite-side names x 12 shapes: compact rule have_name_matching(rx) vs are_named(expansion), "
    "expansion computed by the harness with re.match over the module list; no match must raise a non-assertion error. "
    "Second exhaustive part: the batch law on T4 for every subject set and object set of 1-2 modules (overlapping and "
    "related sets included) over all import relations with <= 2 (thorough 4) edges. A quarter of the random compact cases give two or three expressions / partial names in one call (expansion = union; one member without a match => no verdict). Random part: Hypothesis trees with regexes / partial names built from the tree's own names (prefix-colliding "
    "siblings), and batches of 1-3 subjects and objects incl. related modules compared with the conjunction of "
    "single-subject (and, for plain should/should_not, single-object) rules. Partial names are expanded with the "
    "harness's own glob semantics, not with the repository's converter. Non-trivial: the expansion has >= 2 modules or "
    "the batch has >= 2 members, and at least one import touches the rule's modules."
)
ASSUMPTIONS = [
    "regexes are matched with re.match against every module name of the architecture (documented behaviour of have_name_matching)",
    "the 'anything' aliases are excluded from the batch law (the property says 'explicitly given objects')",
]

T4_REGEXES = [r"r\.a$", r"r\.a", r"r\.a$|r\.b$", r"r\.[bc]$", r".*\.x$", r"r\.(b|c)", r"r\.a\..*", r"zzz"]
# on T4P = r{a{x},ab,c}: a plain escaped name is a prefix of a sibling's name, and plain prefixes end in the middle of a name
T4P_REGEXES = [r"r\.a", r"r\.ab", r"r\.a$", r"r\.", r"r", r"r.a", r"r\.a\.x", r"r\.a\.", r"r\.c|r\.a", r"r\.b"]


# on T4U = r{a{b},a_b,c}: an expression that spells a module name as it is (dots not escaped) also matches the module whose
# name has another character where the dot is
T4U_REGEXES = [r"r.a.b", r"r.a.b$", r"r.a.", r"r.a_b", r"r..", r"r.a.b|r\.c$", r"r\.a\.b", r"r.a.c"]
REGEXES_BY_TREE = {"T4": T4_REGEXES, "T4P": T4P_REGEXES, "T4U": T4U_REGEXES}
OTHERS_BY_TREE = {"T4": ("r.a.x", "r.b", "r.c"), "T4P": ("r.a.x", "r.ab", "r.c"), "T4U": ("r.a.b", "r.a_b", "r.c")}


def mk(v, d, e, subj, obj):
    return {"verb": v, "dir": d, "exc": e, "anything": False, "subj": subj, "obj": obj}


def expand_regex(tree, rx) -> list:
    return sorted(m for m in tree if re.match(rx, m) is not None)


def compare_compact(ev, tree, imports, shape, side, kind, pattern, other, expansion) -> dict:
    v, d, e = shape
    if isinstance(pattern, list):  # several expressions / partial names in one call
        compact_side = {"kind": "regex-batch" if kind == "regex" else "partial", "names": list(pattern), "as_str": False}
    else:
        compact_side = {"kind": kind, "names": [pattern]}
    exp_side = {"kind": "named", "names": expansion, "as_str": False}
    if side == "subj":
        rc, rx = mk(v, d, e, compact_side, other), mk(v, d, e, exp_side, other)
    else:
        rc, rx = mk(v, d, e, other, compact_side), mk(v, d, e, other, exp_side)
    a = eval_rule(rc, ev)
    viols = []
    sname = f"{v}.{d}.{'except' if e else 'plain'}"
    if not expansion:
        if a[0] != "error":
            viols.append({"sig": f"C11/no-match-gives-verdict/{kind}/{side}", "key": {"kind": kind, "side": side},
                          "detail": f"{pattern!r} matches nothing but the rule returned {a}"})
        label = "empty-expansion"
    else:
        b = eval_rule(rx, ev)
        if a[0] != b[0]:
            viols.append({"sig": f"C11/compact-vs-expanded/{kind}/{side}/{sname}", "key": {"kind": kind, "side": side, "shape": sname},
                          "detail": f"{kind} {pattern!r} on {side} -> {a}; are_named({expansion}) -> {b}"})
        label = f"expansion={min(len(expansion), 3)}"
    names = set(expansion) | set(other["names"])
    touched = any(any(M.is_self_or_desc(u, n) or M.is_self_or_desc(w, n) for n in names) for u, w in imports)
    return {"violations": viols, "nontrivial": (len(expansion) >= 2 or not expansion) and (touched or not expansion),
            "labels": [f"{kind}/{side}", label, "verdict=" + a[0]]}


def compare_batch(ev, tree, imports, shape, subj, obj) -> dict:
    v, d, e = shape
    sname = f"{v}.{d}.{'except' if e else 'plain'}"
    batch = eval_rule(mk(v, d, e, subj, obj), ev)[0]
    singles = [eval_rule(mk(v, d, e, {"kind": subj["kind"], "names": [s]}, obj), ev)[0] for s in subj["names"]]
    viols = []

    def conj(xs):
        if "error" in xs:
            return "error"
        return "pass" if all(x == "pass" for x in xs) else "fail"

    if batch != conj(singles):
        viols.append({"sig": f"C11/batch-subjects/{sname}", "key": {"shape": sname},
                      "detail": f"batch={batch} singles={singles} subj={subj} obj={obj}"})
    if not e and v in ("should", "should_not"):
        per_obj = [eval_rule(mk(v, d, e, subj, {"kind": obj["kind"], "names": [o]}), ev)[0] for o in obj["names"]]
        if batch != conj(per_obj):
            viols.append({"sig": f"C11/batch-objects/{sname}", "key": {"shape": sname},
                          "detail": f"batch={batch} per-object={per_obj} subj={subj} obj={obj}"})
    names = subj["names"] + obj["names"]
    touched = any(any(M.is_self_or_desc(u, n) or M.is_self_or_desc(w, n) for n in names) for u, w in imports)
    big = len(subj["names"]) >= 2 or len(obj["names"]) >= 2
    rel = "related" if not M.names_unrelated(names) else "unrelated"
    return {"violations": viols, "nontrivial": big and touched, "labels": ["batch", rel, "verdict=" + batch]}


@reuse_aware
def check_case(spec: dict) -> dict:
    tree, imports = spec["tree"], [tuple(x) for x in spec["imports"]]
    ev = make_evaluable(tree, imports)
    shape = tuple(spec["shape"])
    if spec["mode"] == "batch":
        return compare_batch(ev, tree, imports, shape, spec["subj"], spec["obj"])
    if isinstance(spec["pattern"], list):
        # a list of expressions stands for the union of their expansions; if one of them matches nothing there is no verdict
        per = [expand_regex(tree, p) if spec["kind"] == "regex" else sorted(m for m in tree if M.glob_matches(p, m)) for p in spec["pattern"]]
        expansion = sorted(set().union(*per)) if all(per) else []
        res = compare_compact(ev, tree, imports, shape, spec["side"], spec["kind"], spec["pattern"], spec["other"], expansion)
        res["labels"].append("list-of-expressions" + ("/one-without-match" if not all(per) and any(per) else ""))
        return res
    if spec["kind"] == "regex":
        expansion = expand_regex(tree, spec["pattern"])
    else:
        expansion = sorted(m for m in tree if M.glob_matches(spec["pattern"], m))
    return compare_compact(ev, tree, imports, shape, spec["side"], spec["kind"], spec["pattern"], spec["other"], expansion)


def exh_shard(arg, stt, deadline) -> None:
    tkey, shard, nshards, max_edges = arg
    tree = RS.TREES[tkey]
    cand = M.candidate_edges(tree, allow_root_target=False, root=tree[0])
    regexes = REGEXES_BY_TREE[tkey]
    exps = {rx: expand_regex(tree, rx) for rx in regexes}
    others = [{"kind": "named", "names": [n]} for n in OTHERS_BY_TREE[tkey]]
    i = 0
    for imports in RS.graphs_of(cand, shard, nshards, max_edges):
        if RS.timed_out(deadline, i, 4):
            stt.truncated = True
            return
        i += 1
        ev = make_evaluable(tree, imports)
        warm = RS.T4_DECOY if i % 4 == 2 else None
        with warmup(warm):
            for rx in regexes:
                for side in ("subj", "obj"):
                    for other in others:
                        for shape in RS.SHAPES:
                            res = compare_compact(ev, tree, imports, shape, side, "regex", rx, other, exps[rx])
                            spec = {"mode": "compact", "tree": tree, "imports": imports, "shape": list(shape), "side": side,
                                    "kind": "regex", "pattern": rx, "other": other}
                            res["labels"] = res["labels"][1:]
                            if warm:
                                spec["warm"] = warm
                                res["labels"].append("reused-rule-object")
                            stt.record(spec, res, enumerated=True, sample=(i % 53 == 1 and shape == RS.SHAPES[3] and side == "obj"))


def batch_shard(arg, stt, deadline) -> None:
    """Batch law on T4: every subject set and object set of 1-2 non-root modules (overlapping and related sets included)
    x filter kinds x 12 shapes x every import relation with at most max_edges edges."""
    from itertools import combinations

    kinds, shard, nshards, max_edges = arg
    tree = RS.T4
    cand = M.candidate_edges(tree, allow_root_target=False, root=tree[0])
    names = [m for m in tree if m != tree[0]]
    sets_ = [list(c) for k in (1, 2) for c in combinations(names, k)]
    i = 0
    for imports in RS.graphs_of(cand, shard, nshards, max_edges):
        if RS.timed_out(deadline, i, 2):
            stt.truncated = True
            return
        i += 1
        ev = make_evaluable(tree, imports)
        for S in sets_:
            for O in sets_:
                if len(S) == 1 and len(O) == 1:
                    continue
                for ks, ko in kinds:
                    subj, obj = {"kind": ks, "names": S, "as_str": False}, {"kind": ko, "names": O, "as_str": False}
                    for shape in RS.SHAPES:
                        res = compare_batch(ev, tree, imports, shape, subj, obj)
                        spec = {"mode": "batch", "tree": tree, "imports": imports, "shape": list(shape), "subj": subj, "obj": obj}
                        if set(S) & set(O):
                            res["labels"] = res["labels"] + ["subject-also-object"]
                        stt.record(spec, res, enumerated=True, sample=(i % 41 == 1 and shape == RS.SHAPES[5] and len(S) == 2 and S == O))


# ------------------------------------------------------------------------------------- random


@st.composite
def regex_for(draw, tree):
    esc = [re.escape(m) for m in tree]
    form = draw(st.sampled_from(["anchored", "prefix", "alt", "class", "suffix", "nomatch", "lastpart", "plain"]))
    if form == "plain":
        # a module name written as it is: every dot stands for any character (preferably a name for which the tree has a
        # module that differs from it exactly where the dots are)
        twins = [m for m in tree if any(x != m and len(x) == len(m) and all(a == b or a == "." for a, b in zip(m, x)) for x in tree)]
        m = draw(st.sampled_from(twins or list(tree)))
        return m + draw(st.sampled_from(["", "$", "."]))
    if form == "anchored":
        return draw(st.sampled_from(esc)) + "$"
    if form == "prefix":
        return draw(st.sampled_from(esc))
    if form == "alt":
        xs = draw(st.lists(st.sampled_from(esc), min_size=2, max_size=3, unique=True))
        return "|".join(x + "$" for x in xs)
    if form == "class":
        m = draw(st.sampled_from(tree))
        head = m.rsplit(".", 1)[0] if "." in m else m
        return re.escape(head) + r"\.[abcx_]+$"
    if form == "suffix":
        m = draw(st.sampled_from(tree))
        return r".*" + re.escape(m.rsplit(".", 1)[-1]) + "$"
    if form == "lastpart":
        m = draw(st.sampled_from(tree))
        return r".*\." + re.escape(m.rsplit(".", 1)[-1])
    return "zz_no_such_module"


@st.composite
def glob_for(draw, tree):
    m = draw(st.sampled_from(tree))
    last = m.rsplit(".", 1)[-1]
    form = draw(st.sampled_from(["full", "lead", "trail", "both", "nomatch"]))
    if form == "full":
        return m
    if form == "lead":
        return "*" + draw(st.sampled_from([last, "." + last, m[1:]]))
    if form == "trail":
        return draw(st.sampled_from([m, m[: max(1, len(m) - 1)], m + "."])) + "*"
    if form == "both":
        return "*" + draw(st.sampled_from([last, "." + last + ".", m[1:-1] or last])) + "*"
    return "zz_no_such*"


@st.composite
def cases(draw):
    spec = draw(plain_cases())
    if draw(st.integers(0, 2)) == 0:
        # the rule objects (compact and expanded alike) are applied to another architecture first, in which a regex or
        # partial name matches other modules
        spec["warm"] = draw(RS.decoys(spec["tree"]))
    return spec


@st.composite
def plain_cases(draw):
    tree = draw(RS.trees(root="q", max_modules=12))
    shape = list(draw(st.sampled_from(RS.SHAPES)))
    mode = draw(st.sampled_from(["compact", "compact", "batch"]))
    if mode == "batch":
        ks, ko = draw(st.sampled_from(RS.KINDS)), draw(st.sampled_from(RS.KINDS))
        S = sorted(set(draw(st.lists(st.sampled_from(tree), min_size=1, max_size=3))))
        O = sorted(set(draw(st.lists(st.sampled_from(tree), min_size=1, max_size=3))))
        subj, obj = {"kind": ks, "names": S, "as_str": False}, {"kind": ko, "names": O, "as_str": False}
        focus = RS.rule_focus(tree, {"subj": subj, "obj": obj})
        imports = draw(RS.import_relation(tree, focus=focus, max_edges=12))
        return {"mode": "batch", "tree": tree, "imports": [list(x) for x in imports], "shape": shape, "subj": subj, "obj": obj}
    kind = draw(st.sampled_from(["regex", "regex", "partial"]))
    pattern = draw(regex_for(tree) if kind == "regex" else glob_for(tree))
    if draw(st.integers(0, 3)) == 0:
        # two or three expressions / partial names in one call (a third of these lists has a member that matches nothing)
        pattern = [pattern] + [draw(regex_for(tree) if kind == "regex" else glob_for(tree)) for _ in range(draw(st.integers(1, 2)))]
        pattern = list(dict.fromkeys(pattern))
    other = {"kind": draw(st.sampled_from(RS.KINDS)),
             "names": sorted(set(draw(st.lists(st.sampled_from(tree), min_size=1, max_size=2))))}
    if kind == "regex":
        exp = [m for p in (pattern if isinstance(pattern, list) else [pattern]) for m in expand_regex(tree, p)]
    else:
        exp = [m for p in (pattern if isinstance(pattern, list) else [pattern]) for m in tree if M.glob_matches(p, m)]
    focus = set(exp) | set(other["names"])
    imports = draw(RS.import_relation(tree, focus=focus, max_edges=12))
    return {"mode": "compact", "tree": tree, "imports": [list(x) for x in imports], "shape": shape,
            "side": draw(st.sampled_from(["subj", "obj"])), "kind": kind, "pattern": pattern, "other": other}


def strategy(tier):
    return cases()


def run(ctx) -> None:
    nsh = 64
    max_edges = 4 if ctx.tier == "quick" else None
    ctx.exhaustive("T4-regex-vs-expansion", MOD, "exh_shard", [("T4", i, nsh, max_edges) for i in range(nsh)],
                   f"T4: import relations ({'<= 4 edges' if max_edges else 'all 2048'}) x {len(T4_REGEXES)} regexes x 2 sides x 3 opposite names x 12 shapes")
    ctx.exhaustive("T4P-plain-name-and-prefix-regexes", MOD, "exh_shard", [("T4P", i, 16, 2 if ctx.tier == "quick" else 4) for i in range(16)],
                   f"T4P = r{{a{{x}},ab,c}}: import relations with <= {2 if ctx.tier == 'quick' else 4} edges x {len(T4P_REGEXES)} regexes that spell a module name or a prefix of one "
                   "(r\\.a also matches r.ab; r\\.b matches nothing) x 2 sides x 3 opposite names x 12 shapes")
    ctx.exhaustive("T4U-unescaped-dots", MOD, "exh_shard", [("T4U", i, 16, 2 if ctx.tier == "quick" else 4) for i in range(16)],
                   f"T4U = r{{a{{b}},a_b,c}}: import relations with <= {2 if ctx.tier == 'quick' else 4} edges x {len(T4U_REGEXES)} regexes that spell a module name with "
                   "unescaped dots (r.a.b also matches r.a_b) x 2 sides x 3 opposite names x 12 shapes")
    bk = [(("named", "named"), ("sub", "sub")), (("named", "sub"), ("sub", "named"))]
    be = 2 if ctx.tier == "quick" else 4
    ctx.exhaustive("T4-batches-vs-single-subjects", MOD, "batch_shard", [(k, i, 16, be) for k in bk for i in range(16)],
                   f"T4: import relations with <= {be} edges x subject sets x object sets (1-2 non-root modules each, overlapping and "
                   "related sets included) x 4 filter-kind pairs x 12 shapes: batch verdict vs conjunction of single-subject rules "
                   "(and of single-object rules for plain should / should_not)")
    ctx.random("random-regex-partial-batch", MOD, "strategy", "check_case", 12000 if ctx.tier == "quick" else 250000)
