"""C04 - modules and hierarchy mirror the scanned directory tree, named from root_path."""
from __future__ import annotations

import re

import types
from itertools import product

from hypothesis import strategies as st

from pytestarch import get_evaluable_architecture_for_module_objects
from pytestarch.eval_structure.evaluable_architecture import ModuleNameFilter, ParentModuleNameFilter

from .. import models as M
from .. import projspace as PS
from ..drive import Project, eval_rule, make_evaluable, scan_outcome, snapshot

ID = "C04"
MOD = __name__

RULE_TEXT = (
    "Hypothesis directory trees (depth <= 5: files, packages with and without __init__.py, empty directories, non-.py "
    "files, sibling names a/ab/a_b/aa that are string prefixes of each other) with fully qualified absolute imports, x a "
    "choice of module_path among all directories, plus a small exhaustive family (all 2-level trees over names {a, ab} "
    "with every file/dir combination). Oracle: modules = dotted paths of every .py file and directory at/below "
    "module_path + ancestors up to the root name; hierarchy edges = exactly (parent(m), m); sub-module sets by dotted "
    "components (observed through get_dependencies with a 'sub modules of' filter); scan(root, sub) == restriction of "
    "scan(root, root); the rendering with imports written relative to module_path's parent gives the same sub-scan; the "
    "module-object entry point equals the path entry point; a rendering with relative from-imports (smallest level that "
    "reaches the target) and a second scan of the unchanged tree, both made after the first scan in the same process, give "
    "the same architecture; 1-3 rules from C01's space give the same verdict and message on the scanned architecture and on one "
    "built directly from its modules and imports; root directory names are drawn from {proj, a, ab, m}, so the root's name may string-prefix or "
    "equal a package name below it. Non-trivial: module_path != root_path, or a prefix-colliding "
    "sibling pair, or a package without __init__.py."
)
ASSUMPTIONS = [
    "no x.py next to a directory x/, no dotted directory names, no symlinks; temp roots are resolved paths",
    "imports are module-level 'import a.b.c' statements (C02 covers the other forms)",
]


def check_case(spec: dict) -> dict:
    root = spec["root"]
    files = PS.render_files(spec)
    mods = PS.tree_modules(spec)
    imps = PS.expected_imports(spec)
    sub_rel = spec.get("module_path", "")
    sub = PS.dotted(root, sub_rel)
    viols = []

    def v(sig, detail):
        viols.append({"sig": f"C04/{sig}", "key": {}, "detail": detail})

    # Ambiguous import texts (only possible when a directory below the root carries the root's own name): in a sub-scan a
    # dotted name T can be read as fully qualified from the root AND as relative to module_path's parent P (= P.T). The
    # property promises that both ways of writing resolve, not which reading wins when one text has both; edges of such
    # statements are left out of every sub-scan comparison.
    ignore = set()
    if sub_rel:
        P = ".".join(sub.split(".")[:-1])
        for f, t in spec.get("imports", []):
            u = PS.dotted(root, f)
            short = t[len(P) + 1:] if M.is_strict_desc(t, P) and M.is_self_or_desc(t, sub) else t
            for text in {t, short}:
                readings = {text, f"{P}.{text}"} & mods
                pk = text.rsplit(".", 1)[0] if "." in text else None
                if pk:
                    readings |= {pk, f"{P}.{pk}"} & mods if len(readings) > 1 else set()
                if len(readings) > 1:
                    ignore |= {(u, r) for r in readings}

    def clean(imps_):
        return PS.drop_ancestor_imports(imps_) - ignore

    with Project(root, files, spec["dirs"]) as pr:
        full = scan_outcome(pr.path())
        part = scan_outcome(pr.path(), pr.path(sub_rel)) if sub_rel else full
        # module-object entry point
        try:
            def package_object(name, rel):
                """What 'import <package>' yields for this directory: __file__ is its __init__.py, or None (and only
                __path__ is set) for a package without __init__.py."""
                m = types.ModuleType(name)
                init = (rel + "/" if rel else "") + "__init__.py"
                m.__path__ = [pr.path(rel) if rel else pr.path()]
                m.__file__ = pr.path(init) if init in spec["pyfiles"] else None
                return m

            ev_obj = get_evaluable_architecture_for_module_objects(package_object("rootmod", ""), package_object("submod", sub_rel))
            obj = ("ok", snapshot(ev_obj))
        except Exception as e:  # noqa: BLE001
            obj = ("error", f"{type(e).__name__}: {e}")
    # the two entry points (and the positional form of the path entry point, in the documented parameter order) under the
    # same options: every option has to arrive where it belongs
    opt_diffs = []
    if spec.get("entry_opts"):
        files_x = dict(files)
        for i, f in enumerate(sorted(spec["pyfiles"])[:3]):
            files_x[f] = files_x[f] + ["import extlib.sub.leaf\n", "import otherlib\nimport extlib.sub\n", "from extlib import thing\n"][i % 3]
        with Project(root, files_x, spec["dirs"]) as prx:
            def package_object_x(name, rel):
                m = types.ModuleType(name)
                init = (rel + "/" if rel else "") + "__init__.py"
                m.__path__ = [prx.path(rel) if rel else prx.path()]
                m.__file__ = prx.path(init) if init in spec["pyfiles"] else None
                return m

            order = ("exclusions", "exclude_external_libraries", "level_limit", "regex_exclusions", "external_exclusions", "regex_external_exclusions")
            defaults = {"exclusions": None, "exclude_external_libraries": True, "level_limit": None, "regex_exclusions": None,
                        "external_exclusions": None, "regex_external_exclusions": None}
            for opts in spec["entry_opts"]:
                kw = {k: (tuple(v) if isinstance(v, list) else v) for k, v in opts.items()}
                by_path = scan_outcome(prx.path(), prx.path(sub_rel) if sub_rel else prx.path(), **kw)
                try:
                    by_obj = ("ok", snapshot(get_evaluable_architecture_for_module_objects(package_object_x("rootmod", ""), package_object_x("submod", sub_rel), **kw)))
                except Exception as e:  # noqa: BLE001
                    by_obj = ("error", f"{type(e).__name__}: {e}")
                try:
                    from pytestarch import get_evaluable_architecture as gea
                    positional = ("ok", snapshot(gea(prx.path(), prx.path(sub_rel) if sub_rel else prx.path(), *[kw.get(k, defaults[k]) for k in order])))
                except Exception as e:  # noqa: BLE001
                    positional = ("error", f"{type(e).__name__}: {e}")
                ref = (by_path[0], by_path[1] if by_path[0] == "ok" else by_path[1].split(":")[0])
                for name, got in (("module-object entry point", by_obj), ("positional arguments in the documented order", positional)):
                    g = (got[0], got[1] if got[0] == "ok" else got[1].split(":")[0])
                    if g != ref:
                        opt_diffs.append((name, opts, got[1] if got[0] != "ok" else sorted(got[1][0])[:8], by_path[1] if by_path[0] != "ok" else sorted(by_path[1][0])[:8]))
    # second rendering: imports relative to module_path's parent directory
    alt = alt3 = None
    if sub_rel:
        parent = ".".join(sub.split(".")[:-1])  # dotted name of module_path.parent

        def rel_name(t):
            return t[len(parent) + 1:] if M.is_strict_desc(t, parent) and M.is_self_or_desc(t, sub) else t

        with Project(root, PS.render_files(spec, rename_target=rel_name), spec["dirs"]) as pr2:
            # the directories next to module_path are scanned first (same parent, so the same short names occur with
            # another meaning): each must be the restriction of the whole scan, and must leave the scan of module_path alone
            par = sub_rel.rsplit("/", 1)[0] if "/" in sub_rel else ""
            for sib in [d for d in spec["dirs"] if d != sub_rel and (d.rsplit("/", 1)[0] if "/" in d else "") == par][:2]:
                sres = scan_outcome(pr2.path(), pr2.path(sib))
                sdot = PS.dotted(root, sib)
                recurs = any(part == root for rel in list(spec["dirs"]) + [f[:-3] for f in spec["pyfiles"]] for part in rel.split("/"))
                if sres[0] == "ok" and full[0] == "ok" and not recurs:  # (a recurring root name gives texts with two readings)
                    wm_s, wi_s = PS.restrict(mods, imps, sdot)
                    short_targets = {t for _, t in spec.get("imports", []) if rel_name(t) != t}
                    wi_s = {(u, w) for u, w in wi_s if w not in short_targets}
                    got_i = {(u, w) for u, w in PS.drop_ancestor_imports(sres[1][1]) if w not in short_targets}
                    if set(sres[1][0]) != wm_s or got_i - ignore != wi_s - ignore:
                        v("sibling-sub-scan-differs", f"module_path={sdot} (scanned before {sub}): modules {sorted(sres[1][0])} imports {sorted(got_i)} "
                          f"!= restriction {sorted(wm_s)} {sorted(wi_s)}")
            alt = scan_outcome(pr2.path(), pr2.path(sub_rel))

        # third rendering: 'from <package relative to module_path's parent> import <last component>'
        def from_stmt(t):
            r = rel_name(t)
            if r != t and "." in r:
                return "from " + r.rsplit(".", 1)[0] + " import " + r.rsplit(".", 1)[1]
            return "import " + r

        files3 = {f: "" for f in spec["pyfiles"]}
        for f, t in spec.get("imports", []):
            files3[f] += from_stmt(t) + "\n"
        for f in spec.get("otherfiles", []):
            files3[f] = "not python\n"
        with Project(root, files3, spec["dirs"]) as pr3:
            alt3 = scan_outcome(pr3.path(), pr3.path(sub_rel))

    # fourth rendering: relative from-imports; scanned after the absolute rendering of the same module names, and the
    # absolute rendering once more after it (a build must not depend on builds that went before it)
    with Project(root, PS.render_files_relative(spec), spec["dirs"]) as pr4:
        rel_full = scan_outcome(pr4.path())
        rel_part = scan_outcome(pr4.path(), pr4.path(sub_rel)) if sub_rel else rel_full
    with Project(root, files, spec["dirs"]) as pr5:
        again = scan_outcome(pr5.path())
        # the same directories spelt relative to the working directory: '.', './sub', and a relative root with an absolute
        # module_path - the root's name comes from the directory, not from the spelling
        import os
        cwd = os.getcwd()
        try:
            os.chdir(pr5.path())
            dot_full = scan_outcome(".", ".")
            dot_part = scan_outcome(".", "./" + sub_rel) if sub_rel else dot_full
            mixed = scan_outcome(".", pr5.path(sub_rel) if sub_rel else pr5.path())
        finally:
            os.chdir(cwd)

    def same(a, b):
        return a[0] == b[0] == "ok" and (set(a[1][0]), PS.drop_ancestor_imports(a[1][1]), set(a[1][2])) == (set(b[1][0]), PS.drop_ancestor_imports(b[1][1]), set(b[1][2]))

    if full[0] == "ok":
        if not same(rel_full, full):
            v("relative-from-imports-differ", f"relative from-imports give {rel_full[1] if rel_full[0] != 'ok' else sorted(PS.drop_ancestor_imports(rel_full[1][1]))}, "
              f"'import <full name>' gives {sorted(PS.drop_ancestor_imports(full[1][1]))}")
        for name, got, want in (("root_path='.'", dot_full, full), ("root_path='.' with module_path './<sub>'", dot_part, part),
                                ("relative root_path with absolute module_path", mixed, part)):
            if want[0] == "ok" and not same(got, want):
                v("relative-spelling-differs", f"{name}: {got[1] if got[0] != 'ok' else sorted(got[1][0])[:6]} instead of the architecture "
                  f"of the absolute paths {sorted(want[1][0])[:6]}")
        if not same(again, full):
            v("second-scan-differs", f"second scan of the same tree: {again[1] if again[0] != 'ok' else sorted(again[1][1])} vs first {sorted(full[1][1])}")
        if sub_rel and part[0] == "ok" and not (rel_part[0] == "ok" and (set(rel_part[1][0]), clean(rel_part[1][1]), set(rel_part[1][2])) == (set(part[1][0]), clean(part[1][1]), set(part[1][2]))):
            v("relative-from-imports-differ/sub-scan", f"module_path={sub}: relative from-imports give {rel_part[1] if rel_part[0] != 'ok' else sorted(PS.drop_ancestor_imports(rel_part[1][1]))}, "
              f"'import <full name>' gives {sorted(PS.drop_ancestor_imports(part[1][1]))}")

    for name, opts, got, want in opt_diffs:
        v("entry-points-differ-under-options", f"{name} with {opts}: {got} instead of {want} (keyword call of the path entry point)")
    if full[0] != "ok":
        v("scan-error", full[1])
    else:
        nodes, gimps, hier = full[1]
        gimps = PS.drop_ancestor_imports(gimps)
        if set(nodes) != mods:
            v("modules/" + ("lost" if mods - set(nodes) else "extra"), f"modules {sorted(nodes)} != expected {sorted(mods)}")
        want_h = {(".".join(m.split(".")[:-1]), m) for m in mods if "." in m}
        if set(hier) != want_h:
            v("hierarchy", f"hierarchy edges differ: missing={sorted(want_h - set(hier))} extra={sorted(set(hier) - want_h)}")
        if set(gimps) != imps:
            v("imports/" + ("lost" if imps - set(gimps) else "extra"), f"imports missing={sorted(imps - set(gimps))} extra={sorted(set(gimps) - imps)}")
        # rules judged on the scanned architecture and on one built directly from the same modules and imports
        if spec.get("rules") and not viols:
            direct = make_evaluable(sorted(nodes), sorted(full[1][1]))
            for rule in spec["rules"]:
                a, b = eval_rule(rule, full[2]), eval_rule(rule, direct)
                if a != b and not (a[0] == b[0] == "error"):
                    v("rule-on-scan-differs-from-rule-on-same-graph", f"rule {rule}: scanned architecture {a}, directly built one {b}")
        # sub-module relation through the public query with a 'sub modules of' filter
        ev = full[2]
        for X in sorted(mods)[:6]:
            try:
                got = ev.get_dependencies([ParentModuleNameFilter(parent_module=X)], [ModuleNameFilter(name=root)])
                gp = PS.drop_ancestor_imports({(a.identifier, b.identifier) for lst in got.values() for a, b in lst})
            except Exception as e:  # noqa: BLE001
                v("submodule-query-error", f"{X}: {type(e).__name__}: {e}")
                continue
            wp = {(u, w) for u, w in imps if M.is_strict_desc(u, X)}
            if gp != wp:
                v("submodule-relation", f"imports by sub modules of {X}: {sorted(gp)} != {sorted(wp)}")
    if sub_rel and full[0] == "ok":
        if part[0] != "ok":
            v("sub-scan-error", part[1])
        else:
            wm, wi = PS.restrict(mods, imps, sub)
            if set(part[1][0]) != wm:
                v("sub-scan-modules", f"module_path={sub}: modules {sorted(part[1][0])} != restriction {sorted(wm)}")
            if clean(part[1][1]) != wi - ignore:
                v("sub-scan-imports", f"module_path={sub}: imports {sorted(part[1][1])} != restriction {sorted(wi)}")
            want_hp = {(".".join(m.split(".")[:-1]), m) for m in wm if "." in m}
            if set(part[1][2]) != want_hp:
                v("sub-scan-hierarchy", f"module_path={sub}: hierarchy edges missing={sorted(want_hp - set(part[1][2]))} extra={sorted(set(part[1][2]) - want_hp)}")
            if alt is not None:
                if alt[0] != "ok":
                    v("relative-rendering-error", alt[1])
                elif (set(alt[1][0]), clean(alt[1][1])) != (set(part[1][0]), clean(part[1][1])):
                    v("relative-rendering-differs", f"module_path={sub}: imports written relative to module_path's parent give "
                      f"{sorted(alt[1][1])}, fully qualified give {sorted(part[1][1])}")
    if sub_rel and full[0] == "ok" and part[0] == "ok":
        if alt3[0] != "ok":
            v("from-import-rendering-error", alt3[1])
        elif (set(alt3[1][0]), clean(alt3[1][1])) != (set(part[1][0]), clean(part[1][1])):
            v("from-import-rendering-differs", f"module_path={sub}: 'from <pkg relative to module_path.parent> import <module>' gives "
              f"{sorted(PS.drop_ancestor_imports(alt3[1][1]))}, fully qualified 'import' gives {sorted(PS.drop_ancestor_imports(part[1][1]))}")
    if part[0] == "ok":
        if obj[0] != "ok":
            v("module-object-entry-error", obj[1])
        elif (obj[1][0], obj[1][1], obj[1][2]) != (part[1][0], part[1][1], part[1][2]):
            v("module-object-entry-differs", f"module_path={sub}")
    names = [m.rsplit(".", 1)[-1] for m in mods]
    collide = any(a != b and b.startswith(a) for a in names for b in names)
    no_init = any((d + "/__init__.py") not in spec["pyfiles"] for d in spec["dirs"])
    labels = ["sub-scan" if sub_rel else "root-scan"] + (["prefix-siblings"] if collide else []) + (["pkg-without-init"] if no_init else [])
    return {"violations": viols, "nontrivial": bool(sub_rel) or collide or no_init, "labels": labels}


@st.composite
def cases(draw):
    # the root directory's own name may be a string prefix of (or equal to) a package name below it
    tree = draw(PS.project_trees(root=draw(st.sampled_from(["proj", "proj", "a", "ab", "m"])), max_depth=5, pycache=True))
    tree = draw(PS.with_imports(tree))
    dirs = [""] + tree["dirs"]
    tree["module_path"] = draw(st.sampled_from(dirs)) if draw(st.booleans()) else draw(st.sampled_from(dirs[-2:]))
    from .. import rulespace as RS
    mods = sorted(m for m in PS.tree_modules(tree) if all(p.isidentifier() for p in m.split(".")))
    if len(mods) >= 3:
        tree["rules"] = [draw(RS.unrelated_rule(mods, max_s=2, max_o=2)) for _ in range(draw(st.integers(1, 3)))]
    if draw(st.integers(0, 2)) == 0:
        tree["entry_opts"] = draw(st.lists(entry_options(tree), min_size=1, max_size=3))
    return tree


@st.composite
def entry_options(draw, tree):
    """One valid combination of the six options of the entry points, each chosen so that it has an observable effect."""
    fname = draw(st.sampled_from(tree["pyfiles"])).rsplit("/", 1)[-1]
    opts = {}
    k = draw(st.integers(0, 4))
    if k == 1:
        opts["exclusions"] = ["*" + fname]
    elif k == 2:
        opts["regex_exclusions"] = [".*/" + re.escape(fname) + "$"]
    elif k == 3:
        opts["exclusions"] = []
    if draw(st.booleans()):
        opts["level_limit"] = draw(st.integers(0, 3))
    if draw(st.booleans()):
        opts["exclude_external_libraries"] = False
        e = draw(st.integers(0, 3))
        if e == 1:
            opts["external_exclusions"] = [draw(st.sampled_from(["extlib*", "otherlib", "extlib.sub.leaf"]))]
        elif e == 2:
            opts["regex_external_exclusions"] = [draw(st.sampled_from(["extlib\\.sub$", "other.*", "extlib"]))]
    return opts


def strategy(tier):
    return cases()


def exh_shard(arg, stt, deadline) -> None:
    """All small trees: top-level entries a, ab each absent / file / directory(with or without __init__, with child file a|ab)."""
    shard, nshards = arg
    options = [None, "file", "dir", "dir+init", "dir+child-a", "dir+init+child-ab", "dir+child-a+child-ab"]
    i = 0
    for oa, rootname in product(options, ("proj", "a")):
        for oab in options:
            for mp in ("", "a", "ab"):
                i += 1
                if i % nshards != shard:
                    continue
                dirs, py = [], ["main.py"]
                for name, o in (("a", oa), ("ab", oab)):
                    if o is None:
                        continue
                    if o == "file":
                        py.append(f"{name}.py")
                        continue
                    dirs.append(name)
                    if "init" in o:
                        py.append(f"{name}/__init__.py")
                    if "child-a" in o.replace("child-ab", ""):
                        py.append(f"{name}/a.py")
                    if "child-ab" in o:
                        py.append(f"{name}/ab.py")
                if mp and mp not in dirs:
                    continue
                spec = {"root": rootname, "dirs": dirs, "pyfiles": sorted(py), "otherfiles": [], "module_path": mp}
                mods = sorted(PS.tree_modules(spec))
                files = [f for f in py]
                imps = []
                for k, f in enumerate(files):
                    t = mods[(k * 3 + 1) % len(mods)]
                    if t != PS.dotted(rootname, f):
                        imps.append([f, t])
                spec["imports"] = imps
                stt.record(spec, check_case(spec), enumerated=True, sample=(i % 29 == 3))


def chain_shard(arg, stt, deadline) -> None:
    """Chains d1/d2/.../dn with nothing, one file or an __init__ at the bottom; module_path at every level."""
    (depth,) = arg
    names = ["a", "ab", "a", "b"][:depth]
    dirs = ["/".join(names[: i + 1]) for i in range(depth)]
    for bottom in ([], ["m.py"], ["__init__.py"], ["m.py", "ab.py"]):
        for top in ([], ["main.py"]):
            py = sorted([dirs[-1] + "/" + f for f in bottom] + top)
            for mp in [""] + dirs:
                spec = {"root": "proj", "dirs": dirs, "pyfiles": py, "otherfiles": [], "module_path": mp, "imports": []}
                if "main.py" in py and bottom and bottom[0] != "__init__.py":
                    spec["imports"] = [["main.py", PS.dotted("proj", dirs[-1] + "/" + bottom[0])]]
                stt.record(spec, check_case(spec), enumerated=True, sample=(mp == dirs[-1] and not top))


def run(ctx) -> None:
    nsh = 16
    ctx.exhaustive("directory-chains", MOD, "chain_shard", [(d,) for d in (1, 2, 3, 4)],
                   "directory chains of depth 1-4 with 4 bottom contents x with/without a top-level file x module_path at every level")
    ctx.exhaustive("small-tree-family", MOD, "exh_shard", [(i, nsh) for i in range(nsh)],
                   "root directory named proj or a x top-level entries a and ab each in 7 shapes (absent, file, directory with/without __init__ and children a/ab) x module_path in {root, a, ab}")
    ctx.random("random-trees", MOD, "strategy", "check_case", 1500 if ctx.tier == "quick" else 40000)
