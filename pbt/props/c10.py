"""C10 - external-library options affect only external modules, never internal ones."""
from __future__ import annotations

import re

from hypothesis import strategies as st

from .. import models as M
from .. import projspace as PS
from ..drive import Project, scan_outcome

ID = "C10"
MOD = __name__

RULE_TEXT = (
    "Hypothesis project trees (internal names incl. 'handlers', 'util', prefix-colliding siblings) with internal imports, "
    "imports of externals from a vocabulary with nested packages and names that textually collide with internal ones "
    "(proj_x, projx.y, handlers, a.handlers, os.path, pro), relative imports of non-module names, module_path = root or a "
    "sub-directory (then the rest of the root is external too) x option sets {exclude, include, include + 1-2 glob "
    "patterns, include + 1-2 regex patterns}; patterns drawn from external names, their ancestors and strings that also "
    "match internal names (*handlers, *a*, *util*). Plus a fixed project x an exhaustive pattern list. Oracle: excluded => "
    "only internal modules and imports; included => every retained imported external with all its ancestors and its "
    "import edge is present, every external that matches a pattern (re.match at the start of the name) or has a matching "
    "ancestor is absent, no node outside internal + closure(imported externals); in every configuration the internal "
    "modules and the imports among them equal those of the default scan. Non-trivial: >= 1 external import and, for "
    "pattern cases, the pattern matches >= 1 imported external or internal name."
)
ASSUMPTIONS = [
    "ancestors of an excluded external that are not otherwise imported may or may not be present (the property is silent)",
    "imports of the importer's own ancestor packages are ignored (C02's carve-out)",
]

EXT = ["os", "os.path", "logging", "logging.handlers", "handlers", "a.handlers", "proj_x", "proj_x.y", "projx.y", "pro", "lib.proj", "myproj.core",
       "xml.etree.ElementTree", "util", "numpy.linalg"]
INTERNAL_NAMES = ["a", "ab", "handlers", "util", "b", "m", "a_b"]


def pattern_matcher(kind: str, patterns):
    if kind == "glob":
        return lambda name: any(M.glob_matches(p, name) for p in patterns)
    return lambda name: any(re.match(p, name) is not None for p in patterns)


def check_case(spec: dict) -> dict:
    root = spec["root"]
    files = PS.render_files(spec)
    for f, line in spec.get("raw_lines", []):
        files[f] += line + "\n"
    sub_rel = spec.get("module_path", "")
    sub = PS.dotted(root, sub_rel)
    all_mods = PS.tree_modules(spec)
    internal = {m for m in all_mods if M.is_self_or_desc(m, sub)}
    internal_nodes = internal | set(M.ancestors(sub))
    viols = []

    def v(sig, detail, **key):
        viols.append({"sig": f"C10/{sig}", "key": key, "detail": detail})

    # what the import statements name
    ext_imports, int_imports = set(), set()
    # absolute imports may be written relative to module_path's parent directory (documented prefix resolution)
    prefix = ".".join(sub.split(".")[:-1]) if sub_rel else ""
    for f, t in spec.get("imports", []):
        u = PS.dotted(root, f)
        if u not in internal:
            continue
        if prefix and f"{prefix}.{t}" in internal:
            t = f"{prefix}.{t}"
        if t in internal:
            if t != u and not M.is_strict_desc(u, t):
                int_imports.add((u, t))
        elif M.is_self_or_desc(t, sub):
            pass  # a name below module_path that is no module (a missing or generated package, a function): never a module
        elif t not in internal_nodes:
            ext_imports.add((u, t))
    for f, line in spec.get("raw_lines", []):
        m = re.match(r"from (\.+)([\w.]*) import (\w+|\*)$", line)
        u = PS.dotted(root, f)
        if not m or u not in internal:
            continue
        pkg = u.split(".")[:-1]
        base = pkg[: len(pkg) - (len(m.group(1)) - 1)] + ([m.group(2)] if m.group(2) else [])
        star = m.group(3) == "*"  # a star is never a module name: the statement imports the package itself
        for t in ((".".join(base),) if star else (".".join(base + [m.group(3)]), ".".join(base))):
            if t in internal:
                if t != u and not M.is_strict_desc(u, t):
                    int_imports.add((u, t))
                break
        else:
            # resolves outside module_path: the scanner cannot know whether it is a module, it is an external name
            ext_imports.add((u, ".".join(base if star else base + [m.group(3)])))
    opt = spec["option"]
    kw = {}
    if opt["mode"] != "exclude":
        kw["exclude_external_libraries"] = False
    if opt["mode"] == "include-glob":
        kw["external_exclusions"] = tuple(opt["patterns"])
    if opt["mode"] == "include-regex":
        kw["regex_external_exclusions"] = tuple(opt["patterns"])
    if opt.get("empty_other"):
        # the other kind of pattern passed explicitly as an empty tuple (a wrapper that forwards both): means 'none'
        kw["external_exclusions" if opt["mode"] == "include-regex" else "regex_external_exclusions"] = ()
    with Project(root, files, spec["dirs"]) as pr:
        mp = pr.path(sub_rel) if sub_rel else pr.path()
        base = scan_outcome(pr.path(), mp)
        run = scan_outcome(pr.path(), mp, **kw)
        rel_run = None
        if spec.get("relative_paths"):
            # the same request with root_path / module_path given relative to the working directory
            import os
            cwd = os.getcwd()
            try:
                os.chdir(pr.base)
                rel_run = scan_outcome(root, root + ("/" + sub_rel if sub_rel else ""), **kw)
            finally:
                os.chdir(cwd)
    matched_any = False
    if rel_run is not None and run[0] == "ok" and (rel_run[0] != "ok" or rel_run[1] != run[1]):
        lost = sorted(set(run[1][0]) - set(rel_run[1][0])) if rel_run[0] == "ok" else rel_run[1]
        v(f"relative-paths-differ/{opt['mode']}", f"option {opt}: root_path={root!r} given relative to the working directory loses modules {lost} "
          f"compared with the absolute path", mode=opt["mode"])
    if base[0] != "ok" or run[0] != "ok":
        v("scan-error", f"default={base[1] if base[0] != 'ok' else 'ok'} option={run[1] if run[0] != 'ok' else 'ok'} opt={opt}")
    else:
        bn, bi, _ = base[1]
        rn, ri, _ = run[1]
        bi_raw, ri_raw = set(bi), set(ri)  # incl. imports of the importer's own ancestor packages (e.g. 'import proj')
        bi, ri = PS.drop_ancestor_imports(bi), PS.drop_ancestor_imports(ri)
        if set(bn) != internal_nodes:
            v("default/modules", f"default scan modules {sorted(bn)} != internal {sorted(internal_nodes)}")
        if set(bi) != int_imports:
            v("default/imports", f"default scan imports {sorted(bi)} != {sorted(int_imports)}")
        # internal sub-architecture identical
        r_int_nodes = {n for n in rn if n in internal_nodes}
        # identity of the internal part is required of every import among internal modules, ancestor imports included
        # (packages above module_path are nodes of the graph but lie outside module_path: an import of one of them is an
        # import of something external)
        r_int_imps = {(a, b) for a, b in ri_raw if a in internal and b in internal}
        bi = bi_raw
        if r_int_nodes != set(bn) & internal_nodes:
            v(f"internal-modules-changed/{opt['mode']}", f"option {opt}: internal modules lost={sorted((set(bn) & internal_nodes) - r_int_nodes)}", mode=opt["mode"])
        if r_int_imps != {(a, b) for a, b in bi if a in internal and b in internal}:
            v(f"internal-imports-changed/{opt['mode']}", f"option {opt}: internal imports {sorted(r_int_imps)} != default {sorted(bi)}", mode=opt["mode"])
        ext_nodes = set(rn) - internal_nodes
        if opt["mode"] == "exclude":
            if ext_nodes:
                v("exclude/external-nodes", f"externals excluded but nodes {sorted(ext_nodes)} present")
        else:
            match = pattern_matcher("glob" if opt["mode"] == "include-glob" else "regex", opt.get("patterns", [])) \
                if opt["mode"] != "include" else (lambda name: False)

            def excluded(t):
                return match(t) or any(match(a) for a in M.ancestors(t))

            retained = {(u, t) for u, t in ext_imports if not excluded(t)}
            dropped = {t for _, t in ext_imports if excluded(t)}
            matched_any = bool(dropped) or any(match(m) for m in internal_nodes)
            need_nodes = M.closure({t for _, t in retained})
            if not need_nodes <= set(rn):
                v(f"external-missing/{opt['mode']}", f"option {opt}: imported externals/ancestors missing {sorted(need_nodes - set(rn))}", mode=opt["mode"])
            if not retained <= ri_raw:
                v(f"external-import-missing/{opt['mode']}", f"option {opt}: imports missing {sorted(retained - ri_raw)}", mode=opt["mode"])
            # (packages above module_path are always nodes of the graph, imported or not: only their import can vanish)
            still = {t for t in dropped if t in rn and t not in internal_nodes} | {n for n in ext_nodes if excluded(n)}
            still |= {t for u, t in ext_imports if excluded(t) and (u, t) in ri_raw}
            if still:
                v(f"excluded-external-present/{opt['mode']}", f"option {opt}: excluded externals still present {sorted(still)}", mode=opt["mode"])
            allowed = M.closure({t for _, t in ext_imports})
            if not ext_nodes <= allowed:
                v(f"invented-module/{opt['mode']}", f"option {opt}: modules {sorted(ext_nodes - allowed)} are neither scanned nor named by an import of a module", mode=opt["mode"])
            bad_edges = {(a, b) for a, b in ri if b in ext_nodes and (a, b) not in ext_imports and not M.is_strict_desc(b, a)}
            if bad_edges:
                v(f"invented-import/{opt['mode']}", f"option {opt}: {sorted(bad_edges)}", mode=opt["mode"])
    collide = any(any(M.glob_matches(p, m) for m in internal_nodes) for p in opt.get("patterns", [])) if opt["mode"] == "include-glob" else \
        any(any(re.match(p, m) for m in internal_nodes) for p in opt.get("patterns", [])) if opt["mode"] == "include-regex" else False
    labels = [f"mode={opt['mode']}", "sub-path" if sub_rel else "root-path"] + (["pattern-also-matches-internal"] if collide else []) + \
             (["relative-name-import"] if spec.get("raw_lines") else [])
    nontrivial = bool(ext_imports) and (opt["mode"] in ("exclude", "include") or matched_any or collide)
    return {"violations": viols, "nontrivial": nontrivial, "labels": labels}


def patterns_for(draw, kind, ext_targets, internal):
    pool = []
    names = sorted(set(ext_targets)) or ["os"]
    for n in names:
        last = n.rsplit(".", 1)[-1]
        first = n.split(".", 1)[0]
        for anc in M.ancestors(n):
            pool.append(anc if kind == "glob" else re.escape(anc) + "$")
        if kind == "glob":
            pool += [n, n + "*", "*" + last, first, first + "*", "*" + last + "*", first + ".*"]
        else:
            pool += [re.escape(n) + "$", re.escape(n), ".*" + re.escape(last) + "$", re.escape(first) + "$", re.escape(first) + r"\..*",
                     re.escape(first)]
    if kind == "glob":
        pool += ["*handlers", "*a*", "*util*", "proj*", "*.m", "handlers", "util"]
    else:
        pool += [".*handlers$", ".*a.*", ".*util", "proj", r".*\.m$", "handlers$", "util$"]
    return draw(st.lists(st.sampled_from(pool), min_size=1, max_size=2, unique=True))


@st.composite
def cases(draw):
    tree = draw(PS.project_trees(names=INTERNAL_NAMES, max_depth=3, with_noise=False))
    dirs = [""] + tree["dirs"]
    tree["module_path"] = draw(st.sampled_from(dirs)) if draw(st.integers(0, 2)) == 0 else ""
    sub0 = PS.dotted(tree["root"], tree["module_path"])
    dangling = [f"{sub0}.zz_generated.schema", f"{sub0}.zz_generated", f"{sub0}.a.zz.deep.name"]
    tree = draw(PS.with_imports(tree, max_imports=10, extra_targets=EXT * 2 + dangling))
    sub = PS.dotted(tree["root"], tree["module_path"])
    mods = PS.tree_modules(tree)
    internal = {m for m in mods if M.is_self_or_desc(m, sub)}
    raw = []
    for f in tree["pyfiles"]:
        if draw(st.integers(0, 5)) == 0:
            raw.append([f, draw(st.sampled_from(["from . import helper", "from . import handlers_fn", "from . import *", "from .. import *" if f.count("/") >= 1 else "from . import *", "from .m import func" if (f.rsplit('/', 1)[0] + '/m.py' if '/' in f else 'm.py') in tree["pyfiles"] else "from . import thing"]))])
    tree["raw_lines"] = raw
    ext_targets = [t for f, t in tree["imports"] if t not in internal and PS.dotted(tree["root"], f) in internal]
    mode = draw(st.sampled_from(["exclude", "include", "include-glob", "include-glob", "include-regex", "include-regex"]))
    opt = {"mode": mode}
    if mode == "include-glob":
        opt["patterns"] = patterns_for(draw, "glob", ext_targets, internal)
    elif mode == "include-regex":
        opt["patterns"] = patterns_for(draw, "regex", ext_targets, internal)
    if mode in ("include-glob", "include-regex") and draw(st.integers(0, 2)) == 0:
        opt["empty_other"] = True
    tree["option"] = opt
    tree["relative_paths"] = draw(st.integers(0, 3)) == 0
    return tree


def strategy(tier):
    return cases()


FIXED = {
    "root": "proj", "dirs": ["a", "a/handlers", "ab", "util"],
    "pyfiles": ["__init__.py", "main.py", "a/__init__.py", "a/m.py", "a/handlers/__init__.py", "a/handlers/h.py", "ab/m.py", "util/u.py",
                "handlers.py"],
    "otherfiles": [],
    "imports": [["main.py", "logging.handlers"], ["main.py", "proj.a.m"], ["a/m.py", "os.path"], ["a/m.py", "handlers"],
                ["a/handlers/h.py", "a.handlers"], ["a/handlers/h.py", "proj.util.u"], ["ab/m.py", "proj_x.y"], ["ab/m.py", "proj.a.handlers.h"],
                ["util/u.py", "util"], ["util/u.py", "xml.etree.ElementTree"], ["handlers.py", "proj.ab.m"], ["a/m.py", "proj.ab.m"],
                ["a/m.py", "pro"], ["main.py", "projx.y"], ["a/handlers/h.py", "proj.a.handlers.zz_generated.schema"],
                ["util/u.py", "proj.util.zz_missing.deep.name"], ["main.py", "proj.zz_generated.schema"]],
    "raw_lines": [["a/m.py", "from . import helper"], ["a/handlers/h.py", "from .. import thing"], ["a/handlers/h.py", "from .. import *"],
                  ["util/u.py", "from . import *"]],
}
GLOBS = ["*handlers", "handlers", "logging*", "logging", "logging.*", "*a*", "os*", "os", "*util*", "util", "proj*", "proj_x*", "*.y", "*", "pro",
         "xml.etree*", "*ElementTree", "a.*", "*.m", "proj.ab", "proj", "xml", "xml.etree", "proj.a"]
REGEXES = [".*handlers$", "handlers", "logging", r"logging\..*", ".*a.*", "os", "os$", ".*util", "util$", "proj", "proj_", r".*\.y$", ".*", "pro$",
           r"xml\.etree", "a", r".*\.m$", r"proj\.ab$", "proj$", "xml$", r"xml\.etree$", r"proj\.a$"]


def exh_shard(arg, stt, deadline) -> None:
    (mp,) = arg
    opts = [{"mode": "exclude"}, {"mode": "include"}]
    opts += [{"mode": "include-glob", "patterns": [g]} for g in GLOBS]
    opts += [{"mode": "include-regex", "patterns": [r]} for r in REGEXES]
    opts += [{"mode": "include-glob", "patterns": [GLOBS[i], GLOBS[(i * 5 + 3) % len(GLOBS)]]} for i in range(len(GLOBS))]
    opts += [{"mode": "include-regex", "patterns": [r], "empty_other": True} for r in REGEXES[::3]]
    opts += [{"mode": "include-glob", "patterns": [g], "empty_other": True} for g in GLOBS[::3]]
    for opt in opts:
        spec = dict(FIXED, module_path=mp, option=opt, relative_paths=True)
        stt.record(spec, check_case(spec), enumerated=True, sample=(opt["mode"] == "include-glob" and len(opt["patterns"]) == 1 and opt["patterns"][0] in ("*handlers", "os*")))


def run(ctx) -> None:
    ctx.exhaustive("fixed-project-pattern-list", MOD, "exh_shard", [("",), ("a",), ("a/handlers",), ("util",)],
                   f"fixed project with colliding names x module_path in 4 places x {{exclude, include, {len(GLOBS)} globs, {len(REGEXES)} regexes, {len(GLOBS)} glob pairs}}")
    ctx.random("random-trees-and-options", MOD, "strategy", "check_case", 5000 if ctx.tier == "quick" else 150000)
    # coverage-guided arm over the same strategy and oracle (atheris; skipped when it is not installed)
    ctx.fuzz("coverage-guided-projects-with-externals", "strategy", "check_case", runs=300 if ctx.tier == "quick" else 10000, procs=4 if ctx.tier == "quick" else 12)
