"""C09 - level_limit yields the quotient graph and preserves verdicts above the limit."""
from __future__ import annotations

from hypothesis import strategies as st

from .. import models as M
from .. import projspace as PS
from .. import rulespace as RS
from ..drive import Project, build_rule, eval_layer_rule, eval_rule, outcome, scan_outcome

ID = "C09"
MOD = __name__

RULE_TEXT = (
    "Hypothesis project trees (depth <= 5) with absolute imports (and, in a third of the cases, imports of nested "
    "external packages with externals included; a quarter with file exclusion patterns, a third of the externals-included cases with external exclusion patterns, the same in both scans) x level_limit k in 0..depth+1 x imports written as 'import <name>' or as relative from-imports x module_path = root or a sub-directory, plus "
    "an exhaustive family: a fixed 3-level project x every k in 1..4 x every module_path x externals in/excluded. Oracle: "
    "scan(level_limit=k) must equal the quotient of scan(level_limit=None) under truncation of every module name to k "
    "levels below module_path (modules = truncated names, a->b iff some pre-image import and a != b); then rules drawn "
    "from C01's space over names at/above level k ('sub modules of' parents strictly above) are evaluated on both "
    "architectures and must give the same verdict (likewise a layer rule over two name-defined layers and a diagram rule over 2-3 components at or above the limit), also when one rule object is applied to the full and then to the flattened architecture. Non-trivial: truncation merges >= 2 modules and >= 1 import has an "
    "endpoint that is truncated."
)
ASSUMPTIONS = [
    "the quotient law relates two scans of the same tree, so C02's carve-out for imports of own ancestors does not matter here",
]


def check_case(spec: dict) -> dict:
    root = spec["root"]
    files = PS.render_files_relative(spec) if spec.get("relative") else PS.render_files(spec)
    sub_rel = spec.get("module_path", "")
    sub = PS.dotted(root, sub_rel)
    k = spec["k"]
    ext = spec.get("include_external", False)
    keep = len(sub.split(".")) + k
    viols = []

    def v(sig, detail):
        viols.append({"sig": f"C09/{sig}", "key": {}, "detail": detail})

    with Project(root, files, spec["dirs"]) as pr:
        mp = pr.path(sub_rel) if sub_rel else pr.path()
        # further options (round 9): the same file exclusion patterns / external exclusion patterns in both scans - the
        # quotient law relates the two scans whatever else was asked for
        more = {}
        if spec.get("exclusions"):
            more["exclusions"] = tuple(spec["exclusions"])
        if ext and spec.get("external_exclusions"):
            more["external_exclusions"] = tuple(spec["external_exclusions"])
        full = scan_outcome(pr.path(), mp, exclude_external_libraries=not ext, **more)
        lim = scan_outcome(pr.path(), mp, level_limit=k, exclude_external_libraries=not ext, **more)
    merged = crossing = False
    n_rules = 0
    if full[0] != "ok" or lim[0] != "ok":
        v("scan-error", f"full={full[1] if full[0] != 'ok' else 'ok'} limited={lim[1] if lim[0] != 'ok' else 'ok'}")
    else:
        fm, fi, fh = full[1]
        lm, li, lh = lim[1]
        wm, wi = M.quotient(fm, fi, keep)
        merged = len(wm) < len(fm)
        crossing = any(len(u.split(".")) > keep or len(w.split(".")) > keep for u, w in fi)
        if set(lm) != wm:
            v("modules", f"k={k} module_path={sub}: modules {sorted(lm)} != quotient {sorted(wm)}")
        if set(li) != wi:
            cls = "lost" if wi - set(li) else "extra"
            v(f"imports-{cls}", f"k={k} module_path={sub}: imports {sorted(li)} != quotient {sorted(wi)} (full: {sorted(fi)})")
        want_h = {(".".join(m.split(".")[:-1]), m) for m in wm if "." in m}
        if set(lh) != want_h:
            v("hierarchy", f"k={k}: hierarchy edges missing={sorted(want_h - set(lh))} extra={sorted(set(lh) - want_h)}")
        if not viols:
            for rule in spec.get("rules", []):
                n_rules += 1
                a = eval_rule(rule, full[2])
                b = eval_rule(rule, lim[2])
                if a[0] != b[0]:
                    v(f"verdict-not-preserved/{RS.shape_name(rule)}", f"k={k} module_path={sub} rule={rule}: full -> {a}, flattened -> {b}")
                # one rule object applied to the full and then to the flattened architecture
                ro = build_rule(rule)
                outcome(lambda: ro.assert_applies(full[2]))
                c = outcome(lambda: ro.assert_applies(lim[2]))
                if (c[0], c[1] if c[0] == "fail" else None) != (b[0], b[1] if b[0] == "fail" else None):
                    v(f"reused-rule-object-differs/{RS.shape_name(rule)}", f"k={k} rule={rule}: a rule object applied to the full architecture "
                      f"first gives {c} on the flattened one, a fresh object gives {b}")
        if not viols:
            # layer rules and diagram rules over names at or above the limit are lowered to such module rules: same verdict
            for lr in spec.get("layer_rules", []):
                n_rules += 1
                a = eval_layer_rule(lr["layers"], lr["rule"], full[2])
                b = eval_layer_rule(lr["layers"], lr["rule"], lim[2])
                if a[0] != b[0]:
                    v("layer-rule-verdict-not-preserved", f"k={k} module_path={sub} layers={lr['layers']} rule={lr['rule']}: full -> {a}, flattened -> {b}")
            for dg in spec.get("diagrams", []):
                from .c13 import eval_diagram
                n_rules += 1
                a, b = eval_diagram(dg, full[2]), eval_diagram(dg, lim[2])
                if a[0] != b[0]:
                    v("diagram-rule-verdict-not-preserved", f"k={k} module_path={sub} diagram={dg}: full -> {a}, flattened -> {b}")
    labels = [f"k={k}"] + (["relative-imports"] if spec.get("relative") else []) + ["sub-path" if sub_rel else "root-path", "externals" if ext else "internal-only",
              "merging" if merged else "no-merge", f"rules={n_rules}"] + (["file-exclusions"] if spec.get("exclusions") else []) + (
                  ["external-exclusions"] if (ext and spec.get("external_exclusions")) else [])
    return {"violations": viols, "nontrivial": merged and crossing, "labels": labels}


EXTERNALS = ["os", "os.path", "xml.etree.ElementTree", "logging.handlers", "proj_x.y", "a.b.c.d"]


@st.composite
def cases(draw):
    tree = draw(PS.project_trees(max_depth=5, max_dirs=7, with_noise=False))
    ext = draw(st.integers(0, 2)) == 0
    # besides modules (and externals): dotted names below scanned modules that are not modules themselves (a function or
    # class imported with 'import pkg.mod.name', a compiled or excluded file): no import edge in the full architecture,
    # hence none in the flattened one
    phantoms = [m + "." + n for m in sorted(PS.tree_modules(tree)) for n in ("Thing", "native")][:12]
    tree = draw(PS.with_imports(tree, max_imports=14, extra_targets=(EXTERNALS if ext else []) + phantoms))
    dirs = [""] + tree["dirs"]
    tree["module_path"] = draw(st.sampled_from(dirs)) if draw(st.booleans()) else ""
    sub = PS.dotted(tree["root"], tree["module_path"])
    mods = {m for m in PS.tree_modules(tree) if M.is_self_or_desc(m, sub)}
    depth = max(len(m.split(".")) for m in mods) - len(sub.split("."))
    tree["k"] = draw(st.integers(0, max(1, depth) + 1))
    tree["include_external"] = ext
    tree["relative"] = draw(st.integers(0, 2)) == 0
    if draw(st.integers(0, 3)) == 0:
        names = sorted({p.rsplit("/", 1)[-1] for p in list(tree["pyfiles"]) + list(tree["dirs"])})
        if names:
            tree["exclusions"] = ["*" + n for n in draw(st.lists(st.sampled_from(names), min_size=1, max_size=2, unique=True))]
    if ext and draw(st.integers(0, 2)) == 0:
        tree["external_exclusions"] = draw(st.lists(st.sampled_from(["os*", "xml.etree*", "*handlers", "a.b*", "proj_x"]), min_size=1, max_size=2, unique=True))
    keep = len(sub.split(".")) + tree["k"]
    flat = sorted({M.truncate(m, keep) for m in mods})
    rules = []
    if len(flat) >= 2:
        for _ in range(draw(st.integers(1, 4))):
            r = draw(RS.unrelated_rule(flat, max_s=2, max_o=2))
            for side in ("subj", "obj"):
                if r.get(side) and r[side]["kind"] == "sub" and any(len(n.split(".")) >= keep for n in r[side]["names"]):
                    r[side] = dict(r[side], kind="named")
            rules.append(r)
    tree["rules"] = rules
    # pairwise unrelated modules of the flattened architecture, as layer members and diagram components
    units = []
    for n in draw(st.permutations(flat)):
        if n != flat[0] and all(not M.related(n, u) for u in units) and all(p.isidentifier() for p in n.split(".")):
            units.append(n)
    if len(units) >= 2 and draw(st.booleans()):
        cut = draw(st.integers(1, len(units) - 1))
        layers = [{"name": "L1", "kind": "names", "modules": units[:cut][:3], "as_str": False},
                  {"name": "L2", "kind": "names", "modules": units[cut:][:3], "as_str": False}]
        v_, d_, e_ = draw(st.sampled_from(RS.SHAPES))
        subj = draw(st.sampled_from(["L1", "L2"]))
        tree["layer_rules"] = [{"layers": layers, "rule": {"verb": v_, "dir": "access" if d_ == "import" else "accessed", "exc": e_, "anything": False,
                                                           "subj": subj, "obj": ["L2" if subj == "L1" else "L1"]}}]
    if len(units) >= 2 and draw(st.booleans()):
        comps = units[: draw(st.integers(2, min(3, len(units))))]
        pairs = [(a, b) for a in comps for b in comps if a != b]
        tree["diagrams"] = [{"components": comps, "arrows": [list(x) for x in draw(st.lists(st.sampled_from(pairs), max_size=3, unique=True))],
                             "should_only": draw(st.booleans())}]
    return tree


def strategy(tier):
    return cases()


FIXED = {
    "root": "proj",
    "dirs": ["a", "a/x", "a/x/deep", "ab", "b", "b/y"],
    "pyfiles": ["__init__.py", "main.py", "a/__init__.py", "a/m.py", "a/x/__init__.py", "a/x/n.py", "a/x/deep/k.py", "ab/m.py",
                "b/m.py", "b/y/z.py"],
    "otherfiles": [],
    "imports": [["a/m.py", "proj.b.y.z"], ["a/x/n.py", "proj.b.m"], ["a/x/deep/k.py", "proj.a.m"], ["a/x/deep/k.py", "proj.ab.m"],
                ["b/y/z.py", "proj.a.x.deep.k"], ["b/m.py", "proj.b.y.z"], ["main.py", "proj.a.x.n"], ["ab/m.py", "proj.a.x"],
                ["a/x/n.py", "os.path"], ["b/y/z.py", "xml.etree.ElementTree"], ["a/x/n.py", "proj.a.x.deep.k"],
                ["ab/m.py", "proj.b.y.z.Thing"], ["main.py", "proj.ab.native"], ["b/m.py", "proj.a.x.deep.gen_pb2"]],
}


def exh_shard(arg, stt, deadline) -> None:
    k, = arg
    flat_rules = []
    for mp in ("", "a", "a/x", "b"):
        for ext, rel in ((False, False), (True, False), (False, True)):
            spec = dict(FIXED, module_path=mp, k=k, include_external=ext, relative=rel)
            sub = PS.dotted("proj", mp)
            keep = len(sub.split(".")) + k
            mods = {m for m in PS.tree_modules(spec) if M.is_self_or_desc(m, sub)}
            flat = sorted({M.truncate(m, keep) for m in mods})
            rules = []
            for r in RS.enum_rules(flat, 1, 1, root=flat[0])[:400]:
                bad = False
                for side in ("subj", "obj"):
                    if r.get(side) and r[side]["kind"] == "sub" and any(len(n.split(".")) >= keep for n in r[side]["names"]):
                        bad = True
                if not bad:
                    rules.append(r)
            spec["rules"] = rules
            stt.record(spec, check_case(spec), enumerated=True, sample=(mp == "a"))


def run(ctx) -> None:
    ctx.exhaustive("fixed-project-all-limits", MOD, "exh_shard", [(k,) for k in (0, 1, 2, 3, 4, 5)],
                   "fixed 3-level project x k in 0..5 x module_path in {root, a, a/x, b} x (externals in/excluded, relative from-imports) x up to 400 single-subject/object rules each")
    ctx.random("random-trees", MOD, "strategy", "check_case", 4000 if ctx.tier == "quick" else 120000)
