"""C12 - rule algebra: duality, negation, decomposition, alias and monotonicity laws (relations between
implementation outcomes; no reference model, so related subjects/objects are in scope)."""
from __future__ import annotations

import time

from hypothesis import strategies as st

from .. import models as M
from .. import rulespace as RS
from ..drive import eval_rule, make_evaluable, reuse_aware

ID = "C12"
MOD = __name__

RULE_TEXT = (
    "Exhaustive part: tree T4P = r{a{x},ab,c} x every import relation over its candidate edges x every single subject/object pair of "
    "names (related and identical names included) x both filter kinds: all 12 shapes and both aliases are evaluated and "
    "the duality / negation / decomposition / alias laws checked; the verdict bit-vectors of all graphs are then compared "
    "for every single-edge addition (monotonicity). Random part: Hypothesis trees with batches of 1-3 subjects/objects "
    "(no unrelatedness restriction) and one extra import between unrelated modules. An exception on one side of a law "
    "and a verdict on the other is a violation. Non-trivial: at least one import touches a subject or object module."
)
ASSUMPTIONS = [
    "monotonicity is checked for additions of imports between hierarchy-unrelated modules only (as the property states)",
    "negation laws are checked for one subject and one object (as the property states)",
]


def mk(verb, d, exc, subj, obj, anything=False):
    return {"verb": verb, "dir": d, "exc": exc, "anything": anything, "subj": subj, "obj": obj}


def outcomes(ev, subj, obj) -> dict:
    out = {}
    for v, d, e in RS.SHAPES:
        out[(v, d, e)] = eval_rule(mk(v, d, e, subj, obj), ev)[0]
    return out


def law_checks(ev, subj, obj, single: bool) -> list:
    """Returns list of (law-name, detail) violated for this subject/object choice."""
    bad = []
    o = outcomes(ev, subj, obj)
    # duality: A verb import B  ==  B verb be-imported-by A   (plain should / should_not)
    for v in ("should", "should_not"):
        a = o[(v, "import", False)]
        b = eval_rule(mk(v, "imported", False, obj, subj), ev)[0]
        if a != b:
            bad.append((f"duality/{v}", f"S {v} import O -> {a}; O {v} be imported by S -> {b}"))
        a = o[(v, "imported", False)]
        b = eval_rule(mk(v, "import", False, obj, subj), ev)[0]
        if a != b:
            bad.append((f"duality/{v}", f"S {v} be imported by O -> {a}; O {v} import S -> {b}"))
    for d in ("import", "imported"):
        if single:
            for e in (False, True):
                a, b = o[("should", d, e)], o[("should_not", d, e)]
                if "error" in (a, b):
                    if a != b:
                        bad.append((f"negation/{d}/{'except' if e else 'plain'}", f"should={a} should_not={b}"))
                elif (a == "pass") == (b == "pass"):
                    bad.append((f"negation/{d}/{'except' if e else 'plain'}", f"should={a} should_not={b}"))
        # decomposition
        for e in (False, True):
            so = o[("should_only", d, e)]
            p1 = o[("should", d, e)]
            p2 = o[("should_not", d, not e)]
            if "error" in (so, p1, p2):
                if not (so == p1 == p2 == "error"):
                    bad.append((f"decomposition/{d}/{'except' if e else 'plain'}", f"should_only={so} should={p1} should_not(other)={p2}"))
            elif (so == "pass") != (p1 == "pass" and p2 == "pass"):
                bad.append((f"decomposition/{d}/{'except' if e else 'plain'}", f"should_only={so} should={p1} should_not(other)={p2}"))
    return bad


def alias_checks(ev, subj) -> list:
    bad = []
    for d in ("import", "imported"):
        a = eval_rule(mk("should_not", d, False, subj, None, anything=True), ev)[0]
        b = eval_rule(mk("should_not", d, True, subj, subj), ev)[0]
        if a != b:
            bad.append((f"alias/{d}", f"should_not {d} anything -> {a}; should_not {d} except itself -> {b}"))
    return bad


MONO_SHAPES = [("should", d, e) for d in ("import", "imported") for e in (False, True)] + \
              [("should_not", d, e) for d in ("import", "imported") for e in (False, True)]


def _touches(tree, imports, sides) -> bool:
    import re

    dens = set()
    for side in sides:
        for n in side["names"]:
            if side["kind"] == "regex":
                dens |= {m for m in tree if re.match(n, m)}
            else:
                dens |= M.den(tree, side["kind"], n) | {n}
    return any(u in dens or v in dens for u, v in imports)


@reuse_aware
def check_case(spec: dict) -> dict:
    tree, imports = spec["tree"], [tuple(e) for e in spec["imports"]]
    subj, obj = spec["subj"], spec["obj"]
    ev = make_evaluable(tree, imports)
    # a regular expression may stand for several modules: the negation laws are stated for one subject and one object
    single = len(subj["names"]) == 1 and len(obj["names"]) == 1 and "regex" not in (subj["kind"], obj["kind"])
    bad = law_checks(ev, subj, obj, single) + alias_checks(ev, subj)
    has_regex = "regex" in (subj["kind"], obj["kind"])
    labels = (["regex-side"] if has_regex else ["related" if not M.names_unrelated(subj["names"] + obj["names"]) else "unrelated"]) + \
             [f"batch={len(subj['names'])}x{len(obj['names'])}"]
    extra = spec.get("extra_edge")
    if extra:
        ev2 = make_evaluable(tree, imports + [tuple(extra)])
        for v, d, e in MONO_SHAPES:
            r = mk(v, d, e, subj, obj)
            a, b = eval_rule(r, ev)[0], eval_rule(r, ev2)[0]
            if v == "should" and a == "pass" and b != "pass":
                bad.append((f"monotone/should/{d}", f"{RS.shape_name(r)} passed, fails/raises after adding {extra}: {b}"))
            if v == "should_not" and a == "fail" and b != "fail":
                bad.append((f"monotone/should_not/{d}", f"{RS.shape_name(r)} failed, passes/raises after adding {extra}: {b}"))
        labels.append("with-extra-edge")
    viols = [{"sig": f"C12/{law}/S={subj['kind']},O={obj['kind']}", "key": {"law": law}, "detail": det} for law, det in bad]
    return {"violations": viols, "nontrivial": _touches(tree, imports, [subj, obj]), "labels": labels}


# ------------------------------------------------------------------------------- exhaustive


def so_pairs(tree):
    out = []
    for s in tree:
        for o in tree:
            for ks in RS.KINDS:
                for ko in RS.KINDS:
                    out.append(({"kind": ks, "names": [s]}, {"kind": ko, "names": [o]}))
    return out


def exh_shard(arg, st, deadline) -> None:
    tkey, shard, nshards = arg
    tree = RS.TREES[tkey]
    cand = M.candidate_edges(tree, allow_root_target=False, root=tree[0])
    pairs = so_pairs(tree)
    n = len(cand)
    i = 0
    for mask in range(2 ** n):
        if mask % nshards != shard:
            continue
        if RS.timed_out(deadline, i, 4):
            st.truncated = True
            return
        i += 1
        imports = [cand[k] for k in range(n) if mask >> k & 1]
        ev = make_evaluable(tree, imports)
        bits = {sh: 0 for sh in MONO_SHAPES}
        errs = 0
        for idx, (subj, obj) in enumerate(pairs):
            o = outcomes(ev, subj, obj)
            for sh in MONO_SHAPES:
                if o[sh] == "pass":
                    bits[sh] |= 1 << idx
                if o[sh] == "error":
                    errs |= 1 << idx
            bad = law_checks(ev, subj, obj, True)
            if subj == obj:
                bad += alias_checks(ev, subj)
            viols = [{"sig": f"C12/{law}/S={subj['kind']},O={obj['kind']}", "key": {"law": law}, "detail": det}
                     for law, det in bad]
            spec = {"tree": tree, "imports": imports, "subj": subj, "obj": obj}
            rel = "related" if M.related(subj["names"][0], obj["names"][0]) else "unrelated"
            st.record(spec, {"violations": viols, "nontrivial": _touches(tree, imports, [subj, obj]), "labels": [rel]},
                      enumerated=True, sample=(i % 61 == 3 and idx % 37 == 5))
        st.payload[mask] = ([bits[sh] for sh in MONO_SHAPES], errs)


def monotone_from_payload(ctx, tkey, payload) -> None:
    """Compare verdict vectors of G and G+e for every graph and every absent candidate edge between unrelated modules."""
    from ..runner import Stats

    t0 = time.time()
    st = Stats(ID)
    tree = RS.TREES[tkey]
    cand = M.candidate_edges(tree, allow_root_target=False, root=tree[0])
    pairs = so_pairs(tree)
    n = len(cand)
    unrelated_edge = [not M.related(u, v) for u, v in cand]
    for mask, (vecs, errs) in payload.items():
        for k in range(n):
            if mask >> k & 1 or not unrelated_edge[k]:
                continue
            m2 = mask | (1 << k)
            if m2 not in payload:
                continue
            vecs2, errs2 = payload[m2]
            st.evaluations += 1
            st.nontrivial_count += 1
            for si, sh in enumerate(MONO_SHAPES):
                if sh[0] == "should":
                    lost = vecs[si] & ~vecs2[si]  # passed before, not after
                else:
                    lost = vecs2[si] & ~vecs[si] & ~errs  # failed before (not pass, not error), passes after
                if lost:
                    idx = lost.bit_length() - 1
                    subj, obj = pairs[idx]
                    imports = [cand[j] for j in range(n) if mask >> j & 1]
                    spec = {"tree": tree, "imports": imports, "subj": subj, "obj": obj, "extra_edge": list(cand[k])}
                    st.add_violation({"sig": f"C12/monotone/{sh[0]}/{sh[1]}/S={subj['kind']},O={obj['kind']}",
                                      "key": {"law": f"monotone/{sh[0]}/{sh[1]}"},
                                      "detail": f"{sh} on {subj}/{obj}: verdict moved the wrong way after adding {cand[k]}"}, spec)
    if len(st.samples) < 2 and payload:
        st.samples.append({"monotone_pair": "all (G, G+e) with e between unrelated modules", "graphs": len(payload)})
    ctx.inline("monotone-all-single-edge-additions", st, t0, kind="exhaustive",
               scope=f"{tkey}: every (G, G+e), e an absent candidate edge between unrelated modules, all 1x1 subject/object pairs, 8 shapes")


# ------------------------------------------------------------------------------- random


@st.composite
def cases(draw):
    tree = draw(RS.trees(root="q", max_modules=12))
    ks, ko = draw(st.sampled_from(RS.KINDS)), draw(st.sampled_from(RS.KINDS))
    S = sorted(set(draw(st.lists(st.sampled_from(tree), min_size=1, max_size=3))))
    O = sorted(set(draw(st.lists(st.sampled_from(tree), min_size=1, max_size=3))))
    subj, obj = {"kind": ks, "names": S}, {"kind": ko, "names": O}
    focus = RS.rule_focus(tree, {"subj": subj, "obj": obj})
    imports = draw(RS.import_relation(tree, focus=focus, max_edges=12))
    spec = {"tree": tree, "imports": [list(e) for e in imports], "subj": subj, "obj": obj}
    cand = [e for e in M.candidate_edges(tree) if not M.related(*e) and e not in set(imports)]
    if cand and draw(st.booleans()):
        hot = [e for e in cand if e[0] in focus or e[1] in focus]
        spec["extra_edge"] = list(draw(st.sampled_from(hot if hot and draw(st.booleans()) else cand)))
    if draw(st.integers(0, 3)) == 0:
        spec["warm"] = draw(RS.decoys(tree))
    if draw(st.integers(0, 3)) == 0:
        # one side given as a regular expression (possibly matching a module together with its sub modules): the laws
        # relate rules over the same two specifications, whatever form they have
        from .c11 import regex_for
        side = draw(st.sampled_from(["subj", "obj"]))
        spec[side] = {"kind": "regex", "names": [draw(regex_for(tree))]}
    return spec


def strategy(tier):
    return cases()


def run(ctx) -> None:
    nsh = 64
    part = ctx.exhaustive("T4-all-relations-1x1", MOD, "exh_shard", [("T4P", i, nsh) for i in range(nsh)],
                          "T4P = r{a{x},ab,c} (a sibling name string-extends another): all 2048 import relations x all 25 (subject, object) name pairs incl. related/identical x 4 kind pairs x 12 shapes + aliases")
    if not part.truncated:
        monotone_from_payload(ctx, "T4P", part.payload)
    ctx.stats.payload = {}
    ctx.random("random-batches", MOD, "strategy", "check_case", 6000 if ctx.tier == "quick" else 150000)
