"""C05 - layer-rule verdicts follow the documented semantics, one unit per layer."""
from __future__ import annotations

import re
from itertools import combinations, product

from hypothesis import strategies as st

from .. import models as M
from .. import rulespace as RS
from ..drive import eval_layer_rule, evaluable_for, make_evaluable, reuse_aware, warmup

ID = "C05"
MOD = __name__

RULE_TEXT = (
    "Exhaustive part: tree T4 x import relations (quick: <= 3 edges, thorough: all 2^11; thorough adds T6 with <= 2 "
    "edges) x a fixed family of layer partitions (2 and 3 layers, modules in no layer, a layer below an unlayered "
    "parent, an unmentioned layer) x every named/regex choice per layer x every layer rule (12 shapes x subject layer x "
    "1-2 object layers + both aliases). Random part: Hypothesis trees, 2-4 layers of pairwise-unrelated modules with "
    "some modules in no layer, each layer given by names or by a $-anchored regex, imports biased to intra-layer and "
    "layer<->outside pairs. Oracle: models.layer_analysis (layer = union of desc* of its modules). Any non-assertion "
    "exception on a well-formed layer rule is a violation. Non-trivial: at least one import leaves or enters the "
    "subject layer or connects two modules of it."
)
ASSUMPTIONS = [
    "modules listed in different layers are pairwise unrelated (the property's precondition); a quarter of the random cases list, inside one layer, a module together with one of its own descendants (same union)",
    "regex layer specifications are $-anchored alternations of escaped names, so the matched set is exactly the intended one",
]


def layer_regex(mods) -> str:
    return "|".join(re.escape(m) + "$" for m in mods)


def defs_from(config: dict, kinds: tuple) -> list:
    out = []
    for (name, mods), k in zip(config.items(), kinds):
        if k == "regex":
            out.append({"name": name, "kind": "regex", "regex": layer_regex(mods), "modules": list(mods)})
        else:
            out.append({"name": name, "kind": "names", "modules": list(mods), "as_str": len(mods) == 1})
    return out


def enum_layer_rules(layer_names) -> list:
    rules = []
    for s in layer_names:
        others = [l for l in layer_names if l != s]
        objsets = [[o] for o in others] + [list(c) for c in combinations(others, 2)]
        for objs in objsets:
            for v, d, e in RS.SHAPES:
                rules.append({"verb": v, "dir": "access" if d == "import" else "accessed", "exc": e,
                              "anything": False, "subj": s, "obj": objs})
        for d in ("access", "accessed"):
            rules.append({"verb": "should_not", "dir": d, "exc": False, "anything": True, "subj": s, "obj": None})
    return rules


def shape_name(rule) -> str:
    if rule.get("anything"):
        return f"should_not.{rule['dir']}.any"
    return f"{rule['verb']}.{rule['dir']}.{'except' if rule['exc'] else 'plain'}"


def check_with(tree, imports, layer_defs, rule, ev) -> dict:
    layers = {ld["name"]: ld["modules"] for ld in layer_defs}
    an = M.layer_analysis(tree, imports, layers, rule)
    kind, msg = eval_layer_rule(layer_defs, rule, ev)
    sh = shape_name(rule)
    kinds = {ld["name"]: ld["kind"] for ld in layer_defs}
    mentioned = {rule["subj"]} | set(rule["obj"] or [])
    objkinds = sorted({kinds[o] for o in (rule["obj"] or [])})
    cfg = {
        "subj_kind": kinds[rule["subj"]],
        "obj_kinds": "+".join(objkinds) or "-",
        "unmentioned": "+".join(sorted({kinds[l] for l in kinds if l not in mentioned})) or "-",
    }
    viols = []
    if kind == "error":
        viols.append({"sig": f"C05/error/{msg.split(':')[0]}", "key": dict(cfg, exc=msg.split(":")[0]),
                      "detail": f"well-formed layer rule raised {msg}; layers={layer_defs} rule={rule}"})
    else:
        want = "pass" if an["ok"] else "fail"
        if kind != want:
            viols.append({"sig": f"C05/verdict/{sh}/impl={kind},model={want}", "key": dict(cfg, shape=sh, impl=kind),
                          "detail": f"model forbidden={sorted(an['forbidden'])} missing_edge={an['missing_edge']} "
                                    f"missing_other={an['missing_other']}; implementation {kind}: {msg!r}"})
    S = M.layer_den(tree, layers[rule["subj"]])
    touched = any(u in S or v in S for u, v in imports)
    intra = any(u in S and v in S for u, v in imports)
    labels = [f"shape={sh}", f"objs={cfg['obj_kinds']}", f"subj={cfg['subj_kind']}", f"unmentioned={cfg['unmentioned']}",
              "oracle=" + ("pass" if an["ok"] else "fail")] + (["intra-layer-import"] if intra else [])
    return {"violations": viols, "nontrivial": touched, "labels": labels}


@reuse_aware
def check_case(spec: dict) -> dict:
    tree, imports = spec["tree"], [tuple(e) for e in spec["imports"]]
    res = check_with(tree, imports, spec["layers"], spec["rule"], evaluable_for(spec))
    if spec.get("full_tree"):
        res["labels"].append("flattened-by-level-limit")
    return res


# ------------------------------------------------------------------------------ exhaustive

CONFIGS = {
    "T4": [
        {"L1": ["r.a"], "L2": ["r.b"]},
        {"L1": ["r.a", "r.b"], "L2": ["r.c"]},
        {"L1": ["r.a.x"], "L2": ["r.b", "r.c"]},
        {"L1": ["r.a.x"], "L2": ["r.b"], "L3": ["r.c"]},
        {"L1": ["r.a"], "L2": ["r.b"], "L3": ["r.c"]},
    ],
    "TX": [
        {"L1": ["r.a"], "L2": ["x"]},
        {"L1": ["x"], "L2": ["r.b"]},
        {"L1": ["x.y"], "L2": ["r.a", "r.b"]},
        {"L1": ["r.a", "x"], "L2": ["r.b"]},
    ],
    "T6N": [  # a layer that lists a module together with one (not all) of its sub modules
        {"L1": ["r.a", "r.a.x"], "L2": ["r.b"]},
        {"L1": ["r.b", "r.b.x"], "L2": ["r.a.y", "r.c"]},
        {"L1": ["r.c"], "L2": ["r.a", "r.a.x"]},
    ],
    "T6": [
        {"L1": ["r.a.x", "r.b.x"], "L2": ["r.a.y"], "L3": ["r.c"]},
        {"L1": ["r.a"], "L2": ["r.b.x", "r.c"]},
        {"L1": ["r.a.x", "r.a.y"], "L2": ["r.b"]},
    ],
}


def exh_shard(arg, stt, deadline) -> None:
    tkey, shard, nshards, max_edges = arg
    ckey, tkey = tkey, tkey.rstrip("N")
    tree = RS.TREES[tkey]
    cand = M.candidate_edges(tree, allow_root_target=False, root=tree[0])
    plans = []
    for config in CONFIGS[ckey]:
        rules = enum_layer_rules(list(config))
        for kinds in product(("names", "regex"), repeat=len(config)):
            plans.append((defs_from(config, kinds), rules))
    i = 0
    for imports in RS.graphs_of(cand, shard, nshards, max_edges):
        if RS.timed_out(deadline, i, 2):
            stt.truncated = True
            return
        i += 1
        ev = make_evaluable(tree, imports)
        # every 4th import relation: each layer-rule object is first applied to another architecture (other modules match
        # the layers' regexes there, some listed modules are absent)
        warm = RS.T4_DECOY if (i % 4 == 1 and tkey != "TX") else None
        with warmup(warm):
            for layer_defs, rules in plans:
                for rule in rules:
                    res = check_with(tree, imports, layer_defs, rule, ev)
                    res["labels"] = [res["labels"][1], res["labels"][3], res["labels"][4]] + res["labels"][5:]
                    spec = {"tree": tree, "imports": imports, "layers": layer_defs, "rule": rule}
                    if warm:
                        spec["warm"] = warm
                        res["labels"].append("reused-rule-object")
                    stt.record(spec, res, enumerated=True, sample=(i % 41 == 7 and rule["exc"] and rule["verb"] == "should"))


# ------------------------------------------------------------------------------ random


@st.composite
def cases(draw):
    tree = draw(RS.trees(root="q", max_modules=14, min_modules=5))
    if draw(st.integers(0, 2)) == 0:
        tree = sorted(M.closure(set(tree) | set(draw(st.lists(st.sampled_from(["x", "x.y", "x.y.z", "lib", "lib.u"]), min_size=1, max_size=3, unique=True)))))
    order = draw(st.permutations([m for m in tree if m != "q"]))
    units = []
    for n in order:
        if all(not M.related(n, u) for u in units):
            units.append(n)
    if len(units) < 2:
        units = (units + [m for m in tree if m != tree[0]])[:2]
        if len(units) < 2 or M.related(*units):
            # degenerate tree: a chain; use two layers on a tiny fixed tree instead
            tree = ["q", "q.a", "q.b", "q.c"]
            units = ["q.a", "q.b", "q.c"]
    n_layers = draw(st.integers(2, min(4, len(units))))
    assign = {}
    for i, u in enumerate(units):
        if i < n_layers:
            assign[u] = i
        else:
            assign[u] = draw(st.integers(-1, n_layers - 1))  # -1: in no layer
    layer_defs = []
    for li in range(n_layers):
        mods = sorted(u for u, a in assign.items() if a == li)
        if draw(st.booleans()):
            rx = layer_regex(mods)
            if draw(st.booleans()):
                # the same modules with the root component left open (\w+), if that still matches exactly these modules
                open_rx = "|".join(r"\w+" + re.escape(m[m.index("."):]) + "$" for m in mods if "." in m)
                if open_rx and sorted(m for m in tree if re.match(open_rx, m)) == mods:
                    rx = open_rx
            layer_defs.append({"name": f"L{li}", "kind": "regex", "regex": rx, "modules": mods})
        else:
            layer_defs.append({"name": f"L{li}", "kind": "names", "modules": mods,
                               "as_str": len(mods) == 1 and draw(st.booleans())})
    if draw(st.integers(0, 3)) == 0:
        # a layer that lists one of its modules together with a module below it (redundant, the layer is the union of the
        # listed modules and their descendants either way); other modules below the same parent stay unlisted
        li = draw(st.integers(0, len(layer_defs) - 1))
        below = [m for m in tree if any(M.is_strict_desc(m, x) for x in layer_defs[li]["modules"])]
        if below:
            extra = draw(st.sampled_from(below))
            ld = layer_defs[li]
            ld["modules"] = sorted(set(ld["modules"]) | {extra})
            ld["as_str"] = False
            if ld["kind"] == "regex":
                ld["regex"] = layer_regex(ld["modules"])
    names = [ld["name"] for ld in layer_defs]
    subj = draw(st.sampled_from(names))
    others = [n for n in names if n != subj]
    if draw(st.integers(0, 7)) == 0:
        rule = {"verb": "should_not", "dir": draw(st.sampled_from(["access", "accessed"])), "exc": False,
                "anything": True, "subj": subj, "obj": None}
    else:
        objs = draw(st.lists(st.sampled_from(others), min_size=1, max_size=2, unique=True))
        v, d, e = draw(st.sampled_from(RS.SHAPES))
        rule = {"verb": v, "dir": "access" if d == "import" else "accessed", "exc": e, "anything": False,
                "subj": subj, "obj": objs, "obj_as_str": draw(st.booleans())}
    layers = {ld["name"]: ld["modules"] for ld in layer_defs}
    focus = set(M.layer_den(tree, layers[subj]))
    imports = draw(RS.import_relation(tree, focus=focus, max_edges=14))
    spec = {"tree": tree, "imports": [list(x) for x in imports], "layers": layer_defs, "rule": rule}
    if draw(st.integers(0, 4)) == 0:
        spec.update(draw(RS.preimage(tree, imports)))  # the same architecture as the flattening of a deeper one
    w = draw(st.integers(0, 5))
    if w == 0:
        spec["warm"] = draw(RS.decoys(tree))
    elif w == 1:
        # the same module tree under another root name, with its own imports
        t2 = sorted(("p" + m[1:]) if (m == "q" or m.startswith("q.")) else m for m in tree)
        spec["warm"] = {"tree": t2, "imports": [list(e) for e in draw(RS.import_relation(t2, max_edges=8))]}
    return spec


def strategy(tier):
    return cases()


def run(ctx) -> None:
    nsh = 64
    if ctx.tier == "quick":
        ctx.exhaustive("T4-layer-configs", MOD, "exh_shard", [("T4", i, nsh, 3) for i in range(nsh)],
                       "T4: all import relations with <= 3 of 11 candidate edges x 5 layer partitions x all named/regex choices x all layer rules")
    else:
        ctx.exhaustive("T4-layer-configs", MOD, "exh_shard", [("T4", i, nsh, None) for i in range(nsh)],
                       "T4: all 2048 import relations x 5 layer partitions x all named/regex choices x all layer rules")
        ctx.exhaustive("T6-layer-configs", MOD, "exh_shard", [("T6", i, 128, 2) for i in range(128)],
                       "T6: all import relations with <= 2 of 27 candidate edges x 3 layer partitions x all named/regex choices x all layer rules")
    ctx.exhaustive("T6-layers-with-nested-members", MOD, "exh_shard", [("T6N", i, 16, 2 if ctx.tier == "quick" else 3) for i in range(16)],
                   "T6: import relations with <= 2 (thorough 3) of 27 candidate edges x 3 partitions in which a layer lists a module together with one of its sub modules x named/regex x all layer rules")
    ctx.exhaustive("TX-top-level-layer-modules", MOD, "exh_shard", [("TX", i, nsh, 2 if ctx.tier == "quick" else 3) for i in range(nsh)],
                   "TX (second top-level package x): import relations with <= 2 (thorough 3) edges x 4 partitions listing single-component modules x named/regex x all layer rules")
    ctx.random("random-layers", MOD, "strategy", "check_case", 12000 if ctx.tier == "quick" else 250000)
