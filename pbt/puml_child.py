"""Child process of C06's 'long names' part: parses one .puml file and prints the result as JSON. The parent waits with a
generous timeout, so a parse whose running time explodes (regular expressions that backtrack exponentially in the length
of a component name) shows up as 'did not finish' instead of hanging the check.
usage: python -m pbt.puml_child <file>   (pytestarch is taken from PYTHONPATH)"""
import json
import sys
from pathlib import Path


def main() -> None:
    from pytestarch.diagram_extension.diagram_parser import PumlParser
    from pytestarch.diagram_extension.exceptions import PumlParsingError

    try:
        parsed = PumlParser().parse(Path(sys.argv[1]))
        print(json.dumps({"ok": [sorted(parsed.all_modules), {k: sorted(v) for k, v in parsed.dependencies.items()}]}))
    except PumlParsingError as e:
        print(json.dumps({"parse-error": str(e)}))
    except Exception as e:  # noqa: BLE001
        print(json.dumps({"other-error": f"{type(e).__name__}: {e}"}))


if __name__ == "__main__":
    main()
