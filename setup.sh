#!/bin/sh
# Offline setup: the checks need hypothesis next to the repository's own dependencies (/venv).
HERE="$(cd "$(dirname "$0")" && pwd)"
cd "$HERE" || exit 1
PY="${VERIF_PYTHON:-/venv/bin/python}"
if PYTHONPATH="$HERE/.deps" "$PY" -c "import hypothesis, networkx, matplotlib" 2>/dev/null; then
  echo "setup: hypothesis available"
else
  echo "setup: installing hypothesis from the offline wheelhouse into $HERE/.deps"
  "$PY" -m pip install --no-index --find-links /opt/veriftools/wheels --target "$HERE/.deps" hypothesis || exit 1
fi
PYTHONPATH="$HERE:$HERE/.deps" "$PY" -c "import hypothesis; print('hypothesis', hypothesis.__version__)" || exit 1
# optional: the coverage-guided arm of C02/C06/C08/C10 (pbt/fuzz.py) needs atheris; the checks skip that part (and say so
# in their evidence) when it cannot be installed
if ! PYTHONPATH="$HERE/.deps" "$PY" -c "import atheris" 2>/dev/null; then
  "$PY" -m pip install --no-index --find-links /opt/veriftools/wheels --target "$HERE/.deps" atheris >/dev/null 2>&1 \
    && echo "setup: atheris installed into $HERE/.deps" || echo "setup: atheris not available, coverage-guided parts will be skipped"
fi
mkdir -p "$HERE/evidence" "$HERE/out"
exit 0
