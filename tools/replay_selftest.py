#!/usr/bin/env python3
"""For one patch per property: run the check against the patched scratch copy, take every replay file it names and
re-run it with --replay (a) against the patched copy - must report the violation again - and (b) against /repo - must
report nothing. usage: tools/replay_selftest.py [CHECK=PATCHNAME ...]"""
import json
import os
import re
import shutil
import subprocess
import sys
import tempfile
from pathlib import Path

HERE = Path(__file__).resolve().parent.parent
DEFAULT = {"C01": "m01-sub-parent-not-other", "C02": "revert-17", "C03": "revert-02", "C04": "revert-19", "C05": "revert-08",
           "C06": "revert-14", "C07": "m14-first-failure-only", "C08": "m16-glob-not-escaped", "C09": "revert-25", "C10": "revert-20",
           "C11": "m19-regex-fullmatch", "C12": "revert-04", "C13": "revert-13", "C14": "m24-submodules-by-startswith",
           "C15": "revert-24", "C16": "revert-10", "C17": "revert-16"}


def patch_of(name):
    idx = json.loads((HERE / "mutants" / "index.json").read_text())
    for m in idx:
        if m["name"].startswith(name):
            return HERE / "mutants" / m["patch"]
    raise SystemExit(f"no mutant {name}")


def main():
    pairs = dict(a.split("=") for a in sys.argv[1:]) or DEFAULT
    bad = 0
    for chk, name in sorted(pairs.items()):
        d = Path(tempfile.mkdtemp(prefix="pbt_rp_"))
        try:
            shutil.copytree("/repo/src", d / "src")
            subprocess.run(["patch", "-p1", "-s", "-d", str(d), "-i", str(patch_of(name))], check=True)
            env = dict(os.environ, VERIF_REPO=str(d), VERIF_EVIDENCE_DIR=str(d / "ev"), VERIF_OUT_DIR=str(d / "out"), PYTHONHASHSEED="0")
            p = subprocess.run([str(HERE / "check"), chk, "--tier", "quick"], capture_output=True, text=True, env=env, cwd=str(HERE))
            files = re.findall(r"VIOLATION property=\S+ replay=(\S+)", p.stdout)
            if not files:
                print(f"{chk} {name}: no violation reported (rc={p.returncode})")
                bad += 1
                continue
            rep = clean = 0
            for f in files:
                a = subprocess.run([str(HERE / "check"), chk, "--replay", f], capture_output=True, text=True, env=env, cwd=str(HERE))
                b = subprocess.run([str(HERE / "check"), chk, "--replay", f], capture_output=True, text=True,
                                   env=dict(os.environ, VERIF_EVIDENCE_DIR=str(d / "ev2")), cwd=str(HERE))
                rep += a.returncode == 1
                clean += b.returncode == 0
                if a.returncode != 1 or b.returncode != 0:
                    print(f"   {f}: replay on patched tree rc={a.returncode}, on /repo rc={b.returncode} {a.stdout[-200:] if a.returncode == 2 else ''}{b.stdout[-300:] if b.returncode else ''}")
            ok = rep == len(files) and clean == len(files)
            bad += not ok
            print(f"{chk} {name}: {len(files)} replay files, {rep} reproduce on the patched tree, {clean} are silent on /repo {'OK' if ok else 'PROBLEM'}")
        finally:
            shutil.rmtree(d, ignore_errors=True)
    return 1 if bad else 0


if __name__ == "__main__":
    sys.exit(main())
