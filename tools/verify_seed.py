#!/usr/bin/env python3
"""Independently verifies sub-agent seeds (/tmp/wt_<ID>/seed_<X>.diff) in a fresh scratch worktree of /repo and stores
the confirmed ones under /verif/seeded/<ID>-<X>/ (patch.diff, demo.py, meta.json)."""
import json
import re
import shutil
import subprocess
import sys
from concurrent.futures import ThreadPoolExecutor
from pathlib import Path

HERE = Path(__file__).resolve().parent.parent
PY = "/venv/bin/python"


def sh(cmd, cwd=None, env=None, timeout=600):
    return subprocess.run(cmd, shell=True, cwd=cwd, env=env, capture_output=True, text=True, timeout=timeout)


def verify(pid, letter):
    src = Path(f"/tmp/wt_{pid}")
    diff, demo, meta = src / f"seed_{letter}.diff", src / f"seed_{letter}_demo.py", src / f"seed_{letter}_meta.json"
    if not (diff.exists() and demo.exists()):
        return pid, letter, "MISSING FILES", {}
    wt = Path(f"/tmp/vs_{pid}_{letter}")
    sh(f"git -C /repo worktree remove --force {wt}")
    r = sh(f"git -C /repo worktree add -q --detach {wt} HEAD")
    if r.returncode:
        return pid, letter, "WORKTREE FAILED " + r.stderr, {}
    try:
        import os
        env = dict(os.environ, PYTHONPATH=f"{wt}/src", PYTHONHASHSEED="0")
        shutil.copy(demo, wt / "seed_demo.py")
        clean = sh(f"{PY} {wt}/seed_demo.py", cwd=wt, env=env)
        ap = sh(f"git apply {diff}", cwd=wt)
        if ap.returncode:
            return pid, letter, "PATCH DOES NOT APPLY " + ap.stderr, {}
        touched = sh("git diff --name-only", cwd=wt).stdout.split()
        tests = sh(f"{PY} -m pytest -q -p no:cacheprovider --timeout=60 --deselect tests/test_architecture.py -x -q 2>&1 | tail -3", cwd=wt, env=env)
        tests = sh(f"{PY} -m pytest -q -p no:cacheprovider --timeout=60 --deselect tests/test_architecture.py 2>&1 | tail -8", cwd=wt, env=env)
        m = re.search(r"(\d+) failed, (\d+) passed", tests.stdout)
        failed_names = sorted(set(re.findall(r"FAILED (\S+)", tests.stdout)))
        dirty = sh(f"{PY} {wt}/seed_demo.py", cwd=wt, env=env)
        ok = (clean.returncode == 0 and dirty.returncode == 1 and m and m.group(2) == "851" and m.group(1) == "5"
              and all("test_module_graph.py" in n for n in failed_names) and all(t.startswith("src/") for t in touched))
        info = {"demo_clean_rc": clean.returncode, "demo_with_change_rc": dirty.returncode, "tests": m.group(0) if m else tests.stdout[-200:],
                "files": touched, "demo_output_with_change": dirty.stdout[-600:]}
        if ok:
            out = HERE / "seeded" / f"{pid}-{letter}"
            out.mkdir(parents=True, exist_ok=True)
            shutil.copy(diff, out / "patch.diff")
            shutil.copy(demo, out / "demo.py")
            agent_meta = json.loads(meta.read_text()) if meta.exists() else {}
            (out / "meta.json").write_text(json.dumps({
                "property": pid, "summary": agent_meta.get("summary"), "needs": agent_meta.get("needs"),
                "why_tests_pass": agent_meta.get("why_tests_pass"), "files": touched,
                "verified": {"how": "fresh git worktree of /repo HEAD: demo exits 0 on the clean tree; patch applied with git apply; "
                                    "pytest (tests/test_architecture.py deselected) 851 passed / same 5 baseline failures; demo exits 1 with the patch",
                             **{k: info[k] for k in ("demo_clean_rc", "demo_with_change_rc", "tests")}},
                "origin": "written by an independent sub-agent that saw only the property text and a scratch worktree",
            }, indent=1))
        return pid, letter, "OK" if ok else "REJECTED", info
    finally:
        sh(f"git -C /repo worktree remove --force {wt}")


def main():
    args = sys.argv[1:]
    letters = "AB"
    if args and args[0].startswith("--letters="):
        letters = args.pop(0).split("=", 1)[1]
    ids = args or [f"C{i:02d}" for i in range(1, 18)]
    jobs = [(p, l) for p in ids for l in letters]
    with ThreadPoolExecutor(6) as ex:
        for pid, letter, status, info in ex.map(lambda a: verify(*a), jobs):
            print(pid, letter, status, {k: v for k, v in info.items() if k != "demo_output_with_change"})


if __name__ == "__main__":
    main()
