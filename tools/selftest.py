#!/usr/bin/env python3
"""Sensitivity self-test: applies each patch of mutants/index.json (or seeded/<id>/patch.diff) to a scratch copy of
/repo, runs the named checks against it (VERIF_REPO=<scratch>) and reports which checks raise an alarm.

usage: tools/selftest.py [--only NAME_SUBSTR] [--tier quick] [--seeded] [--all-checks]
Evidence and replay output of these runs goes to a temporary directory, never to /verif/evidence.
"""
import argparse
import json
import os
import shutil
import subprocess
import sys
import tempfile
import time
from concurrent.futures import ThreadPoolExecutor
from pathlib import Path

HERE = Path(__file__).resolve().parent.parent
REPO = Path("/repo")


def load(seeded: bool):
    items = []
    idx = HERE / "mutants" / "index.json"
    if idx.exists() and not seeded:
        for m in json.loads(idx.read_text()):
            if m.get("obsolete"):
                continue  # made harmless by a later repair (reason in index.json)
            items.append((m["name"], HERE / "mutants" / m["patch"], m["expect"], m.get("note", "")))
    if seeded:
        for d in sorted((HERE / "seeded").glob("*/")):
            meta = json.loads((d / "meta.json").read_text())
            if meta.get("obsolete"):
                continue  # made harmless by a later repair of the repository (reason in meta.json)
            if meta.get("out_of_domain"):
                continue  # needs an input that no generator produces on purpose (reason in meta.json)
            items.append((d.name, d / "patch.diff", meta.get("expect_checks") or [meta["property"]], meta.get("needs", "")))
    return items


def run_one(name, patch, checks, tier, cores):
    scratch = Path(tempfile.mkdtemp(prefix=f"pbt_mut_{name[:20]}_"))
    try:
        shutil.copytree(REPO / "src", scratch / "src")
        r = subprocess.run(["patch", "-p1", "-s", "-d", str(scratch), "-i", str(patch)], capture_output=True, text=True)
        if r.returncode != 0:
            return name, {"_patch": f"PATCH FAILED: {r.stdout} {r.stderr}"}
        out = {}
        for c in checks:
            env = dict(os.environ, VERIF_REPO=str(scratch), VERIF_EVIDENCE_DIR=str(scratch / "evidence"),
                       VERIF_OUT_DIR=str(scratch / "out"), VERIF_CORES=str(cores), PYTHONHASHSEED="0",
                       # several checks share the machine here: the wall-clock budget must not cut a run short
                       VERIF_BUDGET_S=os.environ.get("VERIF_BUDGET_S", "1500"))
            t0 = time.time()
            p = subprocess.run([str(HERE / "check"), c, "--tier", tier], capture_output=True, text=True, env=env, cwd=str(HERE))
            sigs = [l.split("signature:")[1].strip() for l in p.stdout.splitlines() if "signature:" in l]
            out[c] = {"rc": p.returncode, "sigs": sigs[:4], "wall": round(time.time() - t0, 1),
                      "err": p.stdout[-400:] if p.returncode == 2 else ""}
        return name, out
    finally:
        shutil.rmtree(scratch, ignore_errors=True)


def main():
    ap = argparse.ArgumentParser()
    ap.add_argument("--only")
    ap.add_argument("--tier", default="quick")
    ap.add_argument("--seeded", action="store_true")
    ap.add_argument("--all-checks", action="store_true")
    ap.add_argument("--parallel", type=int, default=4)
    a = ap.parse_args()
    items = load(a.seeded)
    if a.only:
        items = [i for i in items if a.only in i[0]]
    allc = [c["property_id"] for c in json.loads((HERE / "MANIFEST.json").read_text())["checks"]]
    cores = max(2, 16 // a.parallel)
    bad = 0
    with ThreadPoolExecutor(a.parallel) as ex:
        futs = [ex.submit(run_one, n, p, (allc if a.all_checks else exp), a.tier, cores) for n, p, exp, _ in items]
        for (n, p, exp, note), f in zip(items, futs):
            name, out = f.result()
            caught = [c for c, r in out.items() if isinstance(r, dict) and r.get("rc") == 1]
            missed = [c for c in exp if c not in caught]
            status = "CAUGHT" if not missed else "MISSED"
            bad += bool(missed)
            print(f"{status} {name}: expected {exp} caught_by={caught}")
            for c, r in out.items():
                if isinstance(r, dict):
                    if r["rc"] == 2:
                        print(f"   {c}: HARNESS ERROR {r['err']}")
                    elif r["rc"] == 1:
                        print(f"   {c}: {r['sigs'][:2]} ({r['wall']}s)")
                else:
                    print(f"   {c}: {r}")
    return 1 if bad else 0


if __name__ == "__main__":
    sys.exit(main())
