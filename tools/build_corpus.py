#!/usr/bin/env python3
"""Builds the committed regression corpus replays/<ID>/*.json: for every mutant of mutants/index.json (the reverse of every
repair and the hand-written breakages) the named checks are run against the patched scratch copy; of the replay files they
write, the two smallest per check are kept if they reproduce on the patched copy and are silent on /repo. The runner
replays the corpus first in every run (plain calls, no Hypothesis)."""
import json
import os
import re
import shutil
import subprocess
import sys
import tempfile
from pathlib import Path

HERE = Path(__file__).resolve().parent.parent


def main():
    idx = [m for m in json.loads((HERE / "mutants" / "index.json").read_text()) if not m.get("obsolete")]
    only = sys.argv[1:]
    kept = 0
    for m in idx:
        if only and not any(o in m["name"] for o in only):
            continue
        for chk in m["expect"]:
            d = Path(tempfile.mkdtemp(prefix="pbt_cp_"))
            try:
                shutil.copytree("/repo/src", d / "src")
                if subprocess.run(["patch", "-p1", "-s", "-d", str(d), "-i", str(HERE / "mutants" / m["patch"])]).returncode:
                    print(m["name"], "patch failed")
                    continue
                env = dict(os.environ, VERIF_REPO=str(d), VERIF_EVIDENCE_DIR=str(d / "ev"), VERIF_OUT_DIR=str(d / "out"), PYTHONHASHSEED="0")
                p = subprocess.run([str(HERE / "check"), chk, "--tier", "quick"], capture_output=True, text=True, env=env, cwd=str(HERE))
                files = sorted(re.findall(r"VIOLATION property=\S+ replay=(\S+)", p.stdout), key=lambda f: os.path.getsize(f))
                n = 0
                for f in files:
                    if n >= 2:
                        break
                    if os.path.getsize(f) > 20000:
                        continue
                    a = subprocess.run([str(HERE / "check"), chk, "--replay", f], capture_output=True, text=True, env=env, cwd=str(HERE))
                    b = subprocess.run([str(HERE / "check"), chk, "--replay", f], capture_output=True, text=True,
                                       env=dict(os.environ, VERIF_EVIDENCE_DIR=str(d / "ev2")), cwd=str(HERE))
                    if a.returncode == 1 and b.returncode == 0:
                        out = HERE / "replays" / chk
                        out.mkdir(parents=True, exist_ok=True)
                        body = json.loads(Path(f).read_text())
                        body["origin"] = f"witness against mutant {m['name']}"
                        (out / f"{m['name']}__{Path(f).stem[:8]}.json").write_text(json.dumps(body, indent=1, sort_keys=True))
                        n += 1
                        kept += 1
                print(m["name"], chk, "kept", n, "of", len(files))
            finally:
                shutil.rmtree(d, ignore_errors=True)
    print("corpus files written:", kept)


if __name__ == "__main__":
    main()
