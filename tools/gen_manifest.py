#!/usr/bin/env python3
"""Regenerates MANIFEST.json from the table below (keeps it schema-valid at all times)."""
import json
from pathlib import Path

HERE = Path(__file__).resolve().parent.parent

CHECKS = {
    "C01": dict(
        technique="exhaustive small-scope enumeration + Hypothesis random search against a set-comprehension reference model of the rule semantics",
        text="Every import relation over a fixed 5-module tree x every rule instantiation whose subjects are unrelated to its objects, and bounded relations x every rule whose subjects are the same as / above / below its objects ('sub modules of X should not import X'), are compared with an independent reference verdict (thorough: three trees, root targets, bounded edge subsets on 6/7-module trees), followed by seeded Hypothesis search over larger random trees; a slice of both tiers applies every rule object to a second architecture first (re-use must not matter) and gives a named side as an equivalent anchored regex; names listed twice, one- and two-module architectures and imports from a package node to a module two or more levels below it are part of the space. Bounded exploration, not proof: complete only up to the stated tree/batch sizes.",
        note="Trusts the reference model in pbt/models.py (reading of LANGUAGE_DEFINTION.md 'Semantics' and the property text) and the direct graph construction NetworkxGraph(modules, [AbsoluteImport]) also used by the repository's tests.",
        ref="5 C01"),
    "C03": dict(
        technique="exhaustive small-scope enumeration + Hypothesis; parsed violation message and public query results compared as sets with the reference violating set",
        text="Same space as C01 (unrelated and related subjects/objects); every AssertionError message is parsed line by line and compared (both inclusions) with the reference report, and the three public query methods are compared with the model's pair sets for every graph and subject/object choice; reports of failing layer rules (C05's space) are compared the same way with the reference layer semantics, including the layer tag of every module; rule objects are re-used across architectures in a slice of the cases.",
        note="Trusts pbt/models.py and the line grammar in pbt/msgparse.py (taken from the documented message table); module names are identifiers.",
        ref="5 C03"),
    "C02": dict(
        technique="grammar-enumerated AST slot paths x import forms (exhaustive to depth 2/3) + Hypothesis project trees, differential against a name-resolution reference model; plus a coverage-guided arm (atheris/libFuzzer driving the same strategy and oracle through Hypothesis fuzz_one_input, pytestarch instrumented)",
        text="Every statement-list position of the running interpreter's grammar, nested to depth 2 (thorough 3), times every import form is rendered into compiling source files, scanned, and the resulting import edges compared in both directions with the targets the statements name; some files are stored with a byte order mark or an encoding declaration; the paths that do not need match / except* are also scanned by a child interpreter whose ast module lacks the classes of newer Python versions; relative imports that leave the scanned root yield no edge and do not disturb the other statements; relative from-imports with a package part list several names (sub module first / two sub modules).",
        note="Trusts ast.unparse/compile of the running CPython and the target-resolution rules written from the property text; imports of own ancestors are outside the claim.",
        ref="5 C02"),
    "C04": dict(
        technique="Hypothesis directory trees + exhaustive small tree families; scan compared with a path-derived reference, sub-scan vs restriction (metamorphic), two entry points (differential)",
        text="Random and enumerated directory trees are written to disk and scanned from every module_path; module set, hierarchy edges, sub-module queries, the sub-scan/restriction law, four import renderings (fully qualified, relative to module_path's parent as import and as from-import, relative from-imports), sibling sub-scans, a repeated scan and the module-object entry point (packages with and without __init__.py) are compared; the root directory's name may recur or be a string prefix below it.",
        note="Real temporary directories; no symlinks, no x.py next to x/.",
        ref="5 C04"),
    "C05": dict(
        technique="exhaustive small-scope enumeration + Hypothesis against a set-comprehension reference model of the layer semantics",
        text="Import relations over small trees x layer partitions x named/regex definitions x all layer rules, compared with an independent layer verdict; random larger cases incl. layers that list a module with its own descendant, regexes with an open root component, and layer-rule objects that are applied to another architecture first.",
        note="Trusts pbt/models.layer_analysis; layers list pairwise-unrelated modules; regex layers are $-anchored.",
        ref="5 C05"),
    "C06": dict(
        technique="grammar-based generation of PlantUML text from a random component relation (exhaustive two-component form matrix + Hypothesis), round-trip oracle; plus a coverage-guided arm (atheris/libFuzzer driving the same strategy and oracle through Hypothesis fuzz_one_input, pytestarch instrumented)",
        text="Diagrams are rendered from a known relation in every documented declaration/reference/arrow form and parsed back; the parsed components and dependencies must equal the relation; blanks / tabs around lines, arrows with and without blanks, identifiers with combining marks are part of the space; sequences of diagrams are parsed one after the other (an alias token of one is a component name of the next); a quarter of the random diagrams may draw an arrow from a component to itself; a fixed family of diagrams with long component names (24-64 digits / non-ASCII letters) is parsed in a child interpreter under a 30 s limit (a parse still running then is a violation).",
        note="Documented subset only (one block per file, aliases on all three declaration forms; no comments, arrow labels or package blocks). The long-name part is the one place where elapsed time is a signal (limit four orders of magnitude above the normal parse time).",
        ref="5 C06"),
    "C07": dict(
        technique="exhaustive component/arrow/import enumeration + Hypothesis against the conformance formula; aggregated message compared with the union of per-rule reference reports; naming options compared differentially",
        text="All arrow relations x all import relations over 2 (thorough 3) components, both modes and both naming options, plus random larger diagrams; DiagramRule objects are re-targeted, switched between the naming options and applied to a second architecture, and must behave like fresh ones.",
        note="Trusts models.diagram_conforms and the documented rule generation for expected failure lines.",
        ref="5 C07"),
    "C08": dict(
        technique="exhaustive string enumeration of the glob-to-regex converter against literal glob semantics + Hypothesis trees with exclusion tuples compared with a pruned-tree reference and glob-vs-regex differential; plus a coverage-guided arm (atheris/libFuzzer driving the same strategy and oracle through Hypothesis fuzz_one_input, pytestarch instrumented)",
        text="7.4 million (pattern, subject) pairs over a metacharacter alphabet, and filtered scans of random trees (glob tuples, equivalent regexes, free-form regexes, with and without external libraries, the documented call forms exclusions=() and regex_exclusions alone, a module_path at, below or outside an excluded directory, one pattern against an empty tuple on trees with __pycache__ directories) compared with the unfiltered scan minus the excluded subtrees.",
        note="Patterns are matched against str(absolute path).",
        ref="5 C08"),
    "C09": dict(
        technique="metamorphic: scan(level_limit=k) vs quotient of scan(None), and rule verdicts on both (Hypothesis trees + fixed project exhaustively over k/module_path)",
        text="The flattened architecture must equal the computed quotient graph (k from 0 to beyond the depth, absolute and relative imports, imports of names that are not modules, externals, file / external exclusion patterns given to both scans, directory and file names outside ASCII) and preserve the verdict of every sampled rule over names above the limit, also for a rule object applied to both.",
        note="Relates two scans of the same tree; quotient computed by pbt/models.quotient.",
        ref="5 C09"),
    "C11": dict(
        technique="metamorphic: compact (regex / partial name / batch) rule vs its expansion on the same architecture; exhaustive over a small tree + Hypothesis",
        text="Every compact specification (one expression / partial name or a list of them) is evaluated next to its expansion computed by the harness; verdicts must be equal, empty expansions must raise; the batch law is enumerated for all subject/object sets of 1-2 modules (overlapping and related sets included) on a small tree; rule objects are re-used across architectures in which a regex matches other modules; expressions that spell a module name with unescaped dots are enumerated on a tree where a sibling's name differs from a nested name exactly at the dot.",
        note="Expansion uses re.match over the module list / the harness's own glob semantics.",
        ref="5 C11"),
    "C12": dict(
        technique="algebraic laws between implementation outcomes (duality, negation, decomposition, alias, monotonicity); exhaustive over a small tree incl. related names + Hypothesis batches",
        text="All 1x1 subject/object pairs (related and identical included) on every import relation of a 5-module tree whose sibling names string-extend each other; monotonicity checked for every single-edge addition from verdict bit-vectors; random batches.",
        note="No reference model: laws relate runs of the implementation.",
        ref="5 C12"),
    "C13": dict(
        technique="exhaustive call-history enumeration against specification automata (Rule / LayerRule / DiagramRule), chain mutations, Hypothesis absent-name cases, exhaustive entry-point option matrix",
        text="Every history classified must-error has to raise a non-assertion error and never return a verdict; absent names are tried in rules, regex batches, layers (also a layer that never received modules, named next to defined ones) and diagrams, also with a rule object that was first applied to an architecture in which the name exists; module_path is also spelt with '..'; the option matrix of the entry points is run through the path and through the module-object entry point.",
        note="Automata written from the property text; histories with a repeated layers_that() are not classified.",
        ref="5 C13"),
    "C16": dict(
        technique="exhaustive call-sequence exploration (depth-first, cut at the first rejected call) against LayerBuilderModel / LayerRuleModel + Hypothesis longer sequences",
        text="Accept/reject per call must agree with the model (no claim about the call that names a layer without modules, nor about a call that supplies a module next to / after its own parent or sub module - if accepted, both are listed and both count as assigned), and accepted definitions must expose exactly the supplied layers and modules.",
        note="Behaviour after a rejected call is not judged.",
        ref="5 C16"),
    "C17": dict(
        technique="exhaustive alias subsets on a prefix-colliding tree + Hypothesis, label map compared with a component-wise reference at the intercepted drawing call",
        text="All alias maps on two fixed trees (one in which the aliased name recurs further down) x spacing, repeated visualize calls on one architecture with other alias texts, plus random trees/alias maps/kwargs incl. template-like alias texts and alias texts that are module names themselves (a module's own full name, its last component, another module's name); labels, kwargs pass-through, spacing handling and unknown-alias rejection are checked.",
        note="draw_networkx replaced by a recorder from the harness side.",
        ref="5 C17"),
    "C10": dict(
        technique="Hypothesis project trees x option sets + exhaustive pattern list on a fixed project; scans compared with an option-independent reference of internal/external parts (differential across configurations); plus a coverage-guided arm (atheris/libFuzzer driving the same strategy and oracle through Hypothesis fuzz_one_input, pytestarch instrumented)",
        text="Scans under {exclude, include, include+glob patterns, include+regex patterns} are compared with the default scan (internal part identical) and with the set of externals the import statements name minus those the patterns exclude; imports of ancestor packages count as internal imports; the same request is repeated with paths relative to the working directory.",
        note="Ancestors of excluded-only externals are unconstrained; real temporary directories.",
        ref="5 C10"),
    "C14": dict(
        technique="metamorphic renaming: each abstract case is instantiated with a collision-free and an adversarial injective component renaming and the structured outcomes compared (exhaustive on an abstract 5-module tree + Hypothesis)",
        text="Verdicts, parsed messages incl. layer tags, label maps and scanned module/import sets (absolute and relative paths, imports of names outside the root) must be equal up to the renaming.",
        note="Regex specifications are excluded; renamings are global injective maps on component tokens.",
        ref="5 C14"),
    "C15": dict(
        technique="Hypothesis rule-based state machine (every step recorded as data, replayable) over shared evaluables with a fresh-evaluation oracle and a snapshot invariant; permuted iterdir/exclusion order; 8-interpreter PYTHONHASHSEED differential",
        text="Histories of up to 40 evaluations (new, re-applied to either architecture, re-targeted diagram rules, permuted lists) must leave the evaluables unchanged and agree with fresh evaluations (verdict, message, and the text of a lookup error); scans must not depend on directory order; outputs (incl. the text of the error a layer definition with repeated modules ends in) must be identical under 8 hash seeds.",
        note="Hash seeds and directory orders are sampled, not exhausted.",
        ref="5 C15"),
}

NOT_YET = {}

def main():
    props = [json.loads(l) for l in (HERE / "properties.jsonl").read_text().splitlines() if l.strip()]
    checks = []
    na = []
    for p in props:
        pid = p["id"]
        if pid in CHECKS:
            c = CHECKS[pid]
            checks.append({
                "property_id": pid,
                "quick_cmd": f"./check {pid} --tier quick",
                "thorough_cmd": f"./check {pid} --tier thorough",
                "evidence_file": f"/verif/evidence/{pid}.json",
                "replay_cmd_template": f"./check {pid} --replay {{path}}",
                "engine": "pbt",
                "level_claimed": {"category": "exploration", "text": c["text"], "design_ref": c["ref"]},
                "level_note": c["note"],
                "technique": c["technique"],
            })
        else:
            na.append({"property_id": pid, "reason": NOT_YET.get(pid, "check under construction in this round (design in DESIGN.md section 5); not claimed until it is registered")})
    man = {
        "version": 1,
        "setup_cmd": "sh ./setup.sh",
        "hooks": {
            "guard": "PYTESTARCH_VERIF",
            "enable": "no hooks: all observation points are public API or harness-side replacement of module-level names; checks import /repo/src directly",
            "baseline_off_cmd": "cd /repo && /venv/bin/python -m pytest -ra -q -p no:cacheprovider --timeout=900 --continue-on-collection-errors",
            "source_commits": [],
            "add_only": True,
        },
        "engines": [{
            "name": "pbt",
            "path": "/verif/pbt",
            "serves_properties": sorted(CHECKS),
            "kind_free_text": "Hypothesis 6.168 strategies/stateful machines + exhaustive small-scope enumeration over multiprocessing, a coverage-guided arm (atheris/libFuzzer over Hypothesis fuzz_one_input) for C02/C06/C08/C10, explicit reference models (pbt/models.py), shrunk failures written as JSON replay files",
        }],
        "checks": checks,
        "not_applicable": na,
        "notes": "All checks: ./check <ID> --tier quick|thorough; VERIF_SEED selects the Hypothesis seeds; exit 2 = harness error. 51 genuine defects found were repaired in /repo by 'fix:' commits and are listed as 'fixed' in known_findings.json (no unrepaired known findings). Sensitivity: tools/selftest.py (reverse of every fix + hand-written mutants + 238 independently written regressions under seeded/), tools/mutate.py (systematic first-order mutation).",
    }
    (HERE / "MANIFEST.json").write_text(json.dumps(man, indent=1) + "\n")

if __name__ == "__main__":
    main()
