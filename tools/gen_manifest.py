#!/usr/bin/env python3
"""Regenerates MANIFEST.json from the table below (keeps it schema-valid at all times)."""
import json
from pathlib import Path

HERE = Path(__file__).resolve().parent.parent

CHECKS = {
    "C01": dict(
        technique="exhaustive small-scope enumeration + Hypothesis random search against a set-comprehension reference model of the rule semantics",
        text="Every import relation over a fixed 5-module tree x every unrelated rule instantiation is compared with an independent reference verdict (thorough: three trees, root targets, bounded edge subsets on 6/7-module trees), followed by seeded Hypothesis search over larger random trees. Bounded exploration, not proof: complete only up to the stated tree/batch sizes.",
        note="Trusts the reference model in pbt/models.py (reading of LANGUAGE_DEFINTION.md 'Semantics' and the property text) and the direct graph construction NetworkxGraph(modules, [AbsoluteImport]) also used by the repository's tests.",
        ref="5 C01"),
    "C03": dict(
        technique="exhaustive small-scope enumeration + Hypothesis; parsed violation message and public query results compared as sets with the reference violating set",
        text="Same space as C01; every AssertionError message is parsed line by line and compared (both inclusions) with the reference report, and the three public query methods are compared with the model's pair sets for every graph and subject/object choice.",
        note="Trusts pbt/models.py and the line grammar in pbt/msgparse.py (taken from the documented message table); module names are identifiers.",
        ref="5 C03"),
}

NOT_YET = {}

def main():
    props = [json.loads(l) for l in (HERE / "properties.jsonl").read_text().splitlines() if l.strip()]
    checks = []
    na = []
    for p in props:
        pid = p["id"]
        if pid in CHECKS:
            c = CHECKS[pid]
            checks.append({
                "property_id": pid,
                "quick_cmd": f"./check {pid} --tier quick",
                "thorough_cmd": f"./check {pid} --tier thorough",
                "evidence_file": f"/verif/evidence/{pid}.json",
                "replay_cmd_template": f"./check {pid} --replay {{path}}",
                "engine": "pbt",
                "level_claimed": {"category": "exploration", "text": c["text"], "design_ref": c["ref"]},
                "level_note": c["note"],
                "technique": c["technique"],
            })
        else:
            na.append({"property_id": pid, "reason": NOT_YET.get(pid, "check under construction in this round (design in DESIGN.md section 5); not claimed until it is registered")})
    man = {
        "version": 1,
        "setup_cmd": "sh ./setup.sh",
        "hooks": {
            "guard": "PYTESTARCH_VERIF",
            "enable": "no hooks: all observation points are public API or harness-side replacement of module-level names; checks import /repo/src directly",
            "baseline_off_cmd": "cd /repo && /venv/bin/python -m pytest -ra -q -p no:cacheprovider --timeout=900 --continue-on-collection-errors",
            "source_commits": [],
            "add_only": True,
        },
        "engines": [{
            "name": "pbt",
            "path": "/verif/pbt",
            "serves_properties": sorted(CHECKS),
            "kind_free_text": "Hypothesis 6.168 strategies/stateful machines + exhaustive small-scope enumeration over multiprocessing, explicit reference models (pbt/models.py), shrunk failures written as JSON replay files",
        }],
        "checks": checks,
        "not_applicable": na,
        "notes": "All checks: ./check <ID> --tier quick|thorough; VERIF_SEED selects the Hypothesis seeds; exit 2 = harness error. Genuine defects found were repaired in /repo by 'fix:' commits and are listed as 'fixed' in known_findings.json.",
    }
    (HERE / "MANIFEST.json").write_text(json.dumps(man, indent=1) + "\n")

if __name__ == "__main__":
    main()
