#!/usr/bin/env python3
"""tools/mkmutant.py NAME RELFILE EXPECT(comma ids) NOTE  <<< 'OLD\n=====\nNEW'
Creates mutants/NAME.patch (unified diff against /repo working tree) by one exact string replacement and registers it."""
import difflib
import json
import sys
from pathlib import Path

HERE = Path(__file__).resolve().parent.parent
name, rel, expect, note = sys.argv[1:5]
old, new = sys.stdin.read().split("\n=====\n")
new = new.rstrip("\n") + ("\n" if old.endswith("\n") else "")
src = Path("/repo") / rel
text = src.read_text()
assert text.count(old) == 1, f"old text occurs {text.count(old)} times"
mut = text.replace(old, new)
diff = "".join(difflib.unified_diff(text.splitlines(True), mut.splitlines(True), f"a/{rel}", f"b/{rel}"))
(HERE / "mutants" / f"{name}.patch").write_text(diff)
idx = HERE / "mutants" / "index.json"
items = [i for i in json.loads(idx.read_text()) if i["name"] != name]
items.append({"name": name, "patch": f"{name}.patch", "expect": expect.split(","), "note": note})
idx.write_text(json.dumps(items, indent=1))
print("wrote", name)
