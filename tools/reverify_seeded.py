#!/usr/bin/env python3
"""Re-verifies every stored seeded change against /repo's current HEAD in a fresh scratch worktree: demo exits 0 on the
clean tree, patch applies, the pinned suite keeps its 851 passes / 5 baseline failures, demo exits 1 with the change.
Records the result in meta.json ('reverified')."""
import json
import os
import re
import subprocess
import sys
from concurrent.futures import ThreadPoolExecutor
from pathlib import Path

HERE = Path(__file__).resolve().parent.parent
PY = "/venv/bin/python"


def sh(cmd, cwd=None, env=None):
    return subprocess.run(cmd, shell=True, cwd=cwd, env=env, capture_output=True, text=True, timeout=900)


def one(d: Path):
    wt = Path(f"/tmp/rv_{d.name}")
    sh(f"git -C /repo worktree remove --force {wt}")
    if sh(f"git -C /repo worktree add -q --detach {wt} HEAD").returncode:
        return d.name, "WORKTREE FAILED", {}
    try:
        env = dict(os.environ, PYTHONPATH=f"{wt}/src", PYTHONHASHSEED="0")
        demo = d / "demo.py"
        clean = sh(f"{PY} {demo}", cwd=wt, env=env).returncode
        if sh(f"git apply {d / 'patch.diff'}", cwd=wt).returncode:
            return d.name, "PATCH DOES NOT APPLY", {}
        t = sh(f"{PY} -m pytest -q -p no:cacheprovider --timeout=60 --deselect tests/test_architecture.py 2>&1 | tail -8", cwd=wt, env=env).stdout
        m = re.search(r"(\d+) failed, (\d+) passed", t)
        dirty = sh(f"{PY} {demo}", cwd=wt, env=env).returncode
        ok = clean == 0 and dirty == 1 and m and m.group(1) == "5" and m.group(2) == "851"
        head = sh("git -C /repo rev-parse --short HEAD").stdout.strip()
        info = {"at": head, "demo_clean_rc": clean, "demo_with_change_rc": dirty, "tests": m.group(0) if m else t[-200:]}
        if ok:
            meta = json.loads((d / "meta.json").read_text())
            meta["reverified"] = info
            (d / "meta.json").write_text(json.dumps(meta, indent=1))
        return d.name, "OK" if ok else "FAILED", info
    finally:
        sh(f"git -C /repo worktree remove --force {wt}")


def main():
    dirs = sorted(p for p in (HERE / "seeded").glob("*/") if not sys.argv[1:] or any(a in p.name for a in sys.argv[1:]))
    bad = 0
    with ThreadPoolExecutor(6) as ex:
        for name, status, info in ex.map(one, dirs):
            if status != "OK":
                bad += 1
                print(name, status, info)
    print(f"{len(dirs) - bad}/{len(dirs)} re-verified")


if __name__ == "__main__":
    main()
