#!/usr/bin/env python3
"""Systematic first-order mutation of /repo/src/pytestarch, as a measure of what the checks can see.

stage 1  every mutant is run against the repository's own pinned suite (tests/test_architecture.py deselected); only the
         mutants that the suite does NOT notice (851 passed / the 5 baseline failures) go on;
stage 2  for each survivor the quick tier of the checks anchored on the mutated file (properties.jsonl: anchors.files)
         is run with VERIF_REPO pointing at the scratch copy.

usage: tools/mutate.py enumerate                     -> out/mutation/mutants.json (all mutation points)
       tools/mutate.py stage1 [--jobs N]             -> out/mutation/stage1.json  (survivors of the repository's tests)
       tools/mutate.py stage2 [--sample N] [--jobs N] [--seed S]  -> out/mutation/stage2.json
       tools/mutate.py report                        -> summary on stdout
Scratch copies live under /tmp and are removed after use. Diagnostic tool: not a registered check.
"""
from __future__ import annotations

import argparse
import ast
import copy
import hashlib
import json
import os
import random
import re
import shutil
import subprocess
import sys
import tempfile
from concurrent.futures import ThreadPoolExecutor
from pathlib import Path

HERE = Path(__file__).resolve().parent.parent
REPO = Path("/repo")
OUT = HERE / "out" / "mutation"
PY = "/venv/bin/python"

SKIP_FILES = {"__init__.py", "exceptions.py", "base_language.py", "evaluable_structures.py", "decorators.py", "config.py"}
CMP_SWAP = {ast.Eq: ast.NotEq, ast.NotEq: ast.Eq, ast.Lt: ast.LtE, ast.LtE: ast.Lt, ast.Gt: ast.GtE, ast.GtE: ast.Gt,
            ast.In: ast.NotIn, ast.NotIn: ast.In, ast.Is: ast.IsNot, ast.IsNot: ast.Is}


def anchors() -> dict:
    m: dict = {}
    for line in (HERE / "properties.jsonl").read_text().splitlines():
        d = json.loads(line)
        for f in d["anchors"]["files"]:
            m.setdefault(f, []).append(d["id"])
    return m


class Enumerator(ast.NodeVisitor):
    """Collects mutation points as (kind, node-index) over a deterministic walk."""

    def __init__(self, tree):
        self.points = []
        self.nodes = list(ast.walk(tree))
        for i, n in enumerate(self.nodes):
            ln = getattr(n, "lineno", 0)
            if isinstance(n, ast.Compare) and len(n.ops) == 1 and type(n.ops[0]) in CMP_SWAP:
                self.points.append(("cmp", i, ln))
            elif isinstance(n, ast.BoolOp):
                self.points.append(("boolop", i, ln))
            elif isinstance(n, (ast.If, ast.While)):
                self.points.append(("negate-test", i, ln))
            elif isinstance(n, ast.IfExp):
                self.points.append(("negate-ifexp", i, ln))
            elif isinstance(n, ast.UnaryOp) and isinstance(n.op, ast.Not):
                self.points.append(("drop-not", i, ln))
            elif isinstance(n, ast.Constant) and isinstance(n.value, bool):
                self.points.append(("flip-bool", i, ln))
            elif isinstance(n, ast.Constant) and isinstance(n.value, int) and not isinstance(n.value, bool) and n.value in (0, 1, 2):
                self.points.append(("int+1", i, ln))
            elif isinstance(n, ast.Constant) and n.value == ".":
                self.points.append(("dot-to-empty", i, ln))
            elif isinstance(n, (ast.Continue,)):
                self.points.append(("continue-to-break", i, ln))
            elif isinstance(n, ast.Break):
                self.points.append(("break-to-continue", i, ln))
            elif isinstance(n, ast.Expr) and isinstance(n.value, ast.Call):
                self.points.append(("drop-call-stmt", i, ln))
            elif isinstance(n, (ast.AugAssign,)):
                self.points.append(("drop-augassign", i, ln))
            elif isinstance(n, ast.Return) and n.value is not None and not isinstance(n.value, ast.Constant):
                self.points.append(("return-none", i, ln))
            elif isinstance(n, ast.Call) and isinstance(n.func, ast.Attribute) and n.func.attr in ("startswith", "endswith"):
                self.points.append(("swap-startswith", i, ln))
            elif isinstance(n, ast.Call) and isinstance(n.func, ast.Name) and n.func.id in ("any", "all"):
                self.points.append(("swap-any-all", i, ln))
            elif isinstance(n, ast.Call) and isinstance(n.func, ast.Name) and n.func.id == "sorted":
                self.points.append(("drop-sorted", i, ln))
            elif isinstance(n, ast.BinOp) and isinstance(n.op, (ast.Add, ast.Sub)) and isinstance(n.right, ast.Constant) and isinstance(n.right.value, int):
                self.points.append(("plus-minus", i, ln))
            elif isinstance(n, ast.Raise) and n.exc is not None:
                self.points.append(("drop-raise", i, ln))


def mutate_source(src: str, kind: str, idx: int) -> str | None:
    tree = ast.parse(src)
    nodes = list(ast.walk(tree))
    n = nodes[idx]
    if kind == "cmp":
        n.ops = [CMP_SWAP[type(n.ops[0])]()]
    elif kind == "boolop":
        n.op = ast.Or() if isinstance(n.op, ast.And) else ast.And()
    elif kind in ("negate-test", "negate-ifexp"):
        n.test = ast.UnaryOp(op=ast.Not(), operand=n.test)
    elif kind == "drop-not":
        # replace the node in its parent
        for p in nodes:
            for f, v in ast.iter_fields(p):
                if v is n:
                    setattr(p, f, n.operand)
                elif isinstance(v, list) and n in v:
                    v[v.index(n)] = n.operand
    elif kind == "flip-bool":
        n.value = not n.value
    elif kind == "int+1":
        n.value = n.value + 1
    elif kind == "dot-to-empty":
        n.value = ""
    elif kind in ("continue-to-break", "break-to-continue", "drop-call-stmt", "drop-augassign", "drop-raise"):
        repl = {"continue-to-break": ast.Break(), "break-to-continue": ast.Continue()}.get(kind, ast.Pass())
        for p in nodes:
            for f, v in ast.iter_fields(p):
                if isinstance(v, list) and n in v:
                    v[v.index(n)] = repl
    elif kind == "return-none":
        n.value = ast.Constant(value=None)
    elif kind == "swap-startswith":
        n.func.attr = "endswith" if n.func.attr == "startswith" else "startswith"
    elif kind == "swap-any-all":
        n.func.id = "all" if n.func.id == "any" else "any"
    elif kind == "drop-sorted":
        if not n.args:
            return None
        for p in nodes:
            for f, v in ast.iter_fields(p):
                if v is n:
                    setattr(p, f, ast.Call(func=ast.Name(id="list", ctx=ast.Load()), args=[n.args[0]], keywords=[]))
                elif isinstance(v, list) and n in v:
                    v[v.index(n)] = ast.Call(func=ast.Name(id="list", ctx=ast.Load()), args=[n.args[0]], keywords=[])
    elif kind == "plus-minus":
        n.op = ast.Sub() if isinstance(n.op, ast.Add) else ast.Add()
    else:
        return None
    ast.fix_missing_locations(tree)
    try:
        out = ast.unparse(tree)
        compile(out, "<mutant>", "exec")
    except Exception:  # noqa: BLE001
        return None
    return out + "\n"


def enumerate_all() -> list:
    anc = anchors()
    muts = []
    for f in sorted((REPO / "src" / "pytestarch").rglob("*.py")):
        rel = str(f.relative_to(REPO))
        if f.name in SKIP_FILES or rel not in anc:
            continue
        src = f.read_text()
        base = ast.unparse(ast.parse(src))
        for kind, idx, line in Enumerator(ast.parse(src)).points:
            m = mutate_source(src, kind, idx)
            if m is None or m.strip() == base.strip():
                continue
            mid = hashlib.sha1(f"{rel}/{kind}/{idx}".encode()).hexdigest()[:10]
            muts.append({"id": mid, "file": rel, "kind": kind, "idx": idx, "line": line, "checks": anc[rel]})
    return muts


def scratch_with(mut) -> Path:
    d = Path(tempfile.mkdtemp(prefix=f"pbt_mu_{mut['id']}_"))
    shutil.copytree(REPO / "src", d / "src")
    p = d / mut["file"]
    p.write_text(mutate_source((REPO / mut["file"]).read_text(), mut["kind"], mut["idx"]))
    return d


def stage1_one(mut) -> dict:
    d = scratch_with(mut)
    try:
        env = dict(os.environ, PYTHONPATH=str(d / "src"), PYTHONHASHSEED="0")
        r = subprocess.run(f"{PY} -m pytest -q -x -p no:cacheprovider --timeout=60 --deselect tests/test_architecture.py "
                           "--deselect tests/eval_structure_generation/test_module_graph.py 2>&1 | tail -3",
                           shell=True, cwd=str(REPO), env=env, capture_output=True, text=True, timeout=900)
        m = re.search(r"(\d+) passed", r.stdout)
        survived = bool(m) and "failed" not in r.stdout and "error" not in r.stdout.lower()
        return dict(mut, survived_tests=survived, tests=r.stdout.strip().splitlines()[-1][:100] if r.stdout.strip() else "")
    except subprocess.TimeoutExpired:
        return dict(mut, survived_tests=False, tests="timeout")
    finally:
        shutil.rmtree(d, ignore_errors=True)


def stage2_one(mut, cores) -> dict:
    d = scratch_with(mut)
    res = {}
    try:
        for c in mut["checks"]:
            env = dict(os.environ, VERIF_REPO=str(d), VERIF_EVIDENCE_DIR=str(d / "evidence"), VERIF_OUT_DIR=str(d / "out"),
                       VERIF_CORES=str(cores), PYTHONHASHSEED="0")
            p = subprocess.run([str(HERE / "check"), c, "--tier", "quick"], capture_output=True, text=True, env=env, cwd=str(HERE), timeout=1800)
            sigs = [l.split("signature:")[1].strip() for l in p.stdout.splitlines() if "signature:" in l]
            res[c] = {"rc": p.returncode, "sigs": sigs[:2]}
            if p.returncode == 1:
                break  # one alarm is enough
        return dict(mut, results=res, caught=any(r["rc"] == 1 for r in res.values()),
                    harness_error=any(r["rc"] == 2 for r in res.values()))
    finally:
        shutil.rmtree(d, ignore_errors=True)


def main():
    ap = argparse.ArgumentParser()
    ap.add_argument("cmd", choices=["enumerate", "stage1", "stage2", "report", "show"])
    ap.add_argument("--jobs", type=int, default=8)
    ap.add_argument("--sample", type=int, default=0)
    ap.add_argument("--seed", type=int, default=1)
    ap.add_argument("--id")
    a = ap.parse_args()
    OUT.mkdir(parents=True, exist_ok=True)
    if a.cmd == "enumerate":
        muts = enumerate_all()
        (OUT / "mutants.json").write_text(json.dumps(muts, indent=1))
        print(len(muts), "mutants")
    elif a.cmd == "stage1":
        muts = json.loads((OUT / "mutants.json").read_text())
        with ThreadPoolExecutor(a.jobs) as ex:
            res = list(ex.map(stage1_one, muts))
        (OUT / "stage1.json").write_text(json.dumps(res, indent=1))
        print(sum(r["survived_tests"] for r in res), "of", len(res), "survive the repository's tests")
    elif a.cmd == "stage2":
        surv = [m for m in json.loads((OUT / "stage1.json").read_text()) if m["survived_tests"]]
        done = {}
        if (OUT / "stage2.json").exists():
            done = {m["id"]: m for m in json.loads((OUT / "stage2.json").read_text())}
        random.Random(a.seed).shuffle(surv)
        todo = [m for m in surv if m["id"] not in done]
        if a.sample:
            todo = todo[: a.sample]
        cores = max(2, 16 // a.jobs)
        with ThreadPoolExecutor(a.jobs) as ex:
            for r in ex.map(lambda m: stage2_one(m, cores), todo):
                done[r["id"]] = r
                (OUT / "stage2.json").write_text(json.dumps(list(done.values()), indent=1))
                print(("CAUGHT " if r["caught"] else "SURVIVED ") + f"{r['id']} {r['file']}:{r['line']} {r['kind']}", flush=True)
    elif a.cmd == "report":
        s2 = json.loads((OUT / "stage2.json").read_text())
        print(len(s2), "survivors of the repository's tests examined;", sum(m["caught"] for m in s2), "raise an alarm in an anchored check")
        for m in s2:
            if not m["caught"]:
                print("  not caught:", m["id"], f"{m['file']}:{m['line']}", m["kind"], "checks run:", list(m["results"]))
    elif a.cmd == "show":
        muts = {m["id"]: m for m in json.loads((OUT / "mutants.json").read_text())}
        m = muts[a.id]
        import difflib
        old = ast.unparse(ast.parse((REPO / m["file"]).read_text())).splitlines(True)
        new = mutate_source((REPO / m["file"]).read_text(), m["kind"], m["idx"]).splitlines(True)
        sys.stdout.writelines(difflib.unified_diff(old, new, m["file"], m["file"] + " (mutant)", n=2))


if __name__ == "__main__":
    main()
