#!/usr/bin/env python3
"""tools/parse_selftest.py LOG...  - turns the output of tools/selftest.py runs into selftest/last_run.json / last_run.txt
(the input of tools/results_table.py)."""
import ast
import json
import re
import sys
from pathlib import Path

HERE = Path(__file__).resolve().parent.parent
rows, text = [], []
for log in sys.argv[1:]:
    cur = None
    for line in Path(log).read_text().splitlines():
        if line.startswith("WARNING"):
            continue
        text.append(line)
        m = re.match(r"(CAUGHT|MISSED) (\S+): expected (\[.*?\]) caught_by=(\[.*\])", line)
        if m:
            cur = {"name": m.group(2), "status": m.group(1), "expected": ast.literal_eval(m.group(3)),
                   "caught_by": ast.literal_eval(m.group(4)), "sigs": {}}
            rows.append(cur)
            continue
        m = re.match(r"\s+(C\d\d): (\[.*\]) \(", line)
        if m and cur is not None:
            cur["sigs"][m.group(1)] = ast.literal_eval(m.group(2))
(HERE / "selftest" / "last_run.json").write_text(json.dumps(rows, indent=1))
(HERE / "selftest" / "last_run.txt").write_text("\n".join(text) + "\n")
print(len(rows), "rows,", sum(r["status"] == "MISSED" for r in rows), "missed")
