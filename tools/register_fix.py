#!/usr/bin/env python3
"""tools/register_fix.py COMMIT PROPS(comma ids) "what failed (witness)"
Records a repaired defect: a 'fixed' entry per property in known_findings.json (suppresses nothing) and the reverse of the
commit as mutants/revert-NN-<commit>.patch expected to be caught by the named checks."""
import json
import subprocess
import sys
from pathlib import Path

HERE = Path(__file__).resolve().parent.parent
commit, props, what = sys.argv[1], sys.argv[2].split(","), sys.argv[3]
short = subprocess.run(["git", "-C", "/repo", "rev-parse", "--short", commit], capture_output=True, text=True).stdout.strip()
subject = subprocess.run(["git", "-C", "/repo", "log", "-1", "--format=%s", commit], capture_output=True, text=True).stdout.strip()
kf = HERE / "known_findings.json"
d = json.loads(kf.read_text())
n = len({f["commit"] for f in d["findings"]}) + 1
for p in props:
    d["findings"].append({"id": f"F{n}-{p}", "property": p, "status": "fixed", "commit": short,
                          "description": f"fixed: property={p} {short} {what}", "fix_subject": subject})
kf.write_text(json.dumps(d, indent=1))
rev = subprocess.run(["git", "-C", "/repo", "diff", f"{commit}", f"{commit}~1", "--", "src"], capture_output=True, text=True).stdout
name = f"revert-{n:02d}-{short}"
(HERE / "mutants" / f"{name}.patch").write_text(rev)
idx = HERE / "mutants" / "index.json"
items = [i for i in json.loads(idx.read_text()) if i["name"] != name]
items.append({"name": name, "patch": f"{name}.patch", "expect": props, "note": f"reverse of {short}: {subject}"})
idx.write_text(json.dumps(items, indent=1))
print("registered", name, props)
