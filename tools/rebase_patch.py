#!/usr/bin/env python3
"""tools/rebase_patch.py PATCH...  - re-creates a patch against /repo's current tree when only its context moved:
every change group (consecutive '-' lines replaced by consecutive '+' lines, with up to 2 lines of leading context to
anchor pure insertions) is applied by exact text replacement; the result is written back as a fresh unified diff and the
old file kept as <patch>.orig. Reports groups that cannot be located."""
import difflib
import re
import sys
from pathlib import Path

REPO = Path("/repo")


def groups(hunk_lines):
    """yield (context_before[list], minus[list], plus[list])"""
    ctx, minus, plus = [], [], []
    for ln in hunk_lines + [" "]:
        tag, body = ln[:1], ln[1:]
        if tag == "-":
            if plus:
                yield ctx[-3:], minus, plus
                ctx, minus, plus = ctx + [], [], []
            minus.append(body)
        elif tag == "+":
            plus.append(body)
        else:
            if minus or plus:
                yield ctx[-3:], minus, plus
                ctx = ctx + [m for m in []]
                minus, plus = [], []
            ctx.append(body)


def rebase(patch_path: Path) -> bool:
    text = patch_path.read_text()
    files = re.split(r"^diff --git ", text, flags=re.M)[1:] or [text]
    new_diffs, ok = [], True
    for fd in files:
        m = re.search(r"^\+\+\+ b/(\S+)", fd, flags=re.M)
        rel = m.group(1)
        cur = (REPO / rel).read_text()
        new = cur
        hunks = re.split(r"^@@.*@@.*$", fd, flags=re.M)[1:]
        for h in hunks:
            lines = [l for l in h.split("\n")[1:] if l != "\\ No newline at end of file"]
            while lines and lines[-1] == "":
                lines.pop()
            for ctx, minus, plus in groups(lines):
                if minus:
                    old_block = "\n".join(minus) + "\n"
                    new_block = "\n".join(plus) + "\n" if plus else ""
                    if new.count(old_block) == 1:
                        new = new.replace(old_block, new_block)
                        continue
                    withctx = "\n".join(ctx[-1:] + minus) + "\n"
                    if ctx and new.count(withctx) == 1:
                        new = new.replace(withctx, "\n".join(ctx[-1:] + plus) + "\n")
                        continue
                else:
                    anchor = "\n".join(ctx[-2:]) + "\n"
                    if ctx and new.count(anchor) == 1:
                        new = new.replace(anchor, anchor + "\n".join(plus) + "\n")
                        continue
                print(f"  {patch_path}: cannot place group in {rel}: -{minus[:2]} +{plus[:2]}")
                ok = False
        new_diffs.append("".join(difflib.unified_diff(cur.splitlines(True), new.splitlines(True), f"a/{rel}", f"b/{rel}")))
    if ok:
        orig = patch_path.with_suffix(patch_path.suffix + ".orig")
        if not orig.exists():
            orig.write_text(text)
        patch_path.write_text("".join(new_diffs))
    return ok


for a in sys.argv[1:]:
    print(a, "rebased" if rebase(Path(a)) else "NEEDS MANUAL WORK")
