#!/bin/sh
# Line/branch coverage of /repo/src/pytestarch under the quick tier of every check (diagnostic only; not a registered check).
# usage: tools/cov.sh [IDs...]   -> report in /tmp/pbt_cov/report.txt
HERE="$(cd "$(dirname "$0")/.." && pwd)"
D=/tmp/pbt_cov; rm -rf $D; mkdir -p $D
cat > $D/.coveragerc <<EOC
[run]
branch = True
source = ${VERIF_REPO:-/repo}/src/pytestarch
concurrency = multiprocessing
parallel = True
data_file = $D/.coverage
EOC
IDS="${@:-C01 C02 C03 C04 C05 C06 C07 C08 C09 C10 C11 C12 C13 C14 C15 C16 C17}"
cd "$HERE"
for id in $IDS; do
  env PYTHONHASHSEED=0 VERIF_EVIDENCE_DIR=$D/ev VERIF_OUT_DIR=$D/out VERIF_BUDGET_S=${VERIF_BUDGET_S:-90} PYTHONPATH=$HERE:$HERE/.deps:${VERIF_REPO:-/repo}/src \
    /venv/bin/python -m coverage run --rcfile=$D/.coveragerc -m pbt.runner $id --tier quick | tail -1
done
cd $D && /venv/bin/python -m coverage combine --rcfile=$D/.coveragerc -q && /venv/bin/python -m coverage report --rcfile=$D/.coveragerc -m > $D/report.txt
tail -5 $D/report.txt
