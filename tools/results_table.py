#!/usr/bin/env python3
"""Rewrites the table between the RESULTS markers of DESIGN.md from selftest/last_run.json."""
import json
import re
from pathlib import Path

HERE = Path(__file__).resolve().parent.parent
rows = json.loads((HERE / "selftest" / "last_run.json").read_text())
notes = {m["name"]: m.get("note", "") for m in json.loads((HERE / "mutants" / "index.json").read_text())}
for d in sorted((HERE / "seeded").glob("*/")):
    meta = json.loads((d / "meta.json").read_text())
    notes[d.name] = (meta.get("summary") or "")
import os

head = os.environ.get("RESULTS_HEADLINE", "Last complete run")
out = ["<!-- RESULTS-BEGIN -->", f"{head}: {len(rows)} changes, "
       f"{sum(r['status'] == 'CAUGHT' for r in rows)} caught by every check expected to catch them.", "",
       "| change | what it does | expected | alarm raised by (first signatures) |", "|---|---|---|---|"]
for r in rows:
    note = re.sub(r"\s+", " ", notes.get(r["name"], "")).replace("|", "/")
    if len(note) > 150:
        note = note[:147] + "..."
    sigs = "; ".join(f"{c}: {', '.join(s[:1])}" for c, s in r["sigs"].items())
    out.append(f"| `{r['name']}` | {note} | {', '.join(r['expected'])} | {'**MISSED** ' if r['status'] != 'CAUGHT' else ''}{sigs.replace('|', '/')} |")
out.append("<!-- RESULTS-END -->")
p = HERE / "DESIGN.md"
s = p.read_text()
block = "\n".join(out)
if "RESULTS_PLACEHOLDER" in s:
    s = s.replace("RESULTS_PLACEHOLDER", block)
else:
    s = re.sub(r"<!-- RESULTS-BEGIN -->.*<!-- RESULTS-END -->", lambda m: block, s, flags=re.S)
p.write_text(s)
print("table rows:", len(rows))
